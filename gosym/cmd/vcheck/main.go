// vcheck decides one property of /verif/properties.jsonl by bounded symbolic execution of the
// real code of /repo (current working tree) and writes /verif/evidence/<id>.json.
//
//	vcheck C02 --tier quick|thorough
//	vcheck --fn VerifC02_DecodeAny --pkg secs2      (development: run a single harness)
//
// Exit codes: 0 held within bounds; 1 VIOLATION (replayed natively); 2 bound exceeded / solver
// inconclusive / vacuous / harness does not apply to this tree; 3 counterexample did not
// reproduce natively.
package main

import (
	"bytes"
	"crypto/sha1"
	"encoding/json"
	"flag"
	"fmt"
	"os"
	osexec "os/exec"
	"path/filepath"
	"regexp"
	"sort"
	"strconv"
	"strings"
	"time"

	"gosym/exec"
)

const goBin = "/opt/veriftools/go1.26.8/bin"

var (
	repoDir     = "/repo"
	verifDir    = "/verif"
	harnessDir  = "/verif/harness"
	workDir     = "/verif/.work"
	evidenceDir = "/verif/evidence"
)

type harness struct {
	Prop string
	Pkg  string // directory under repo, e.g. "secs2"
	Fn   string
	File string
}

var harnessRe = regexp.MustCompile(`(?m)^func (Verif(C\d\d)_\w+)\(\)`)

func discover() []harness {
	var out []harness
	dirs, _ := filepath.Glob(filepath.Join(harnessDir, "*"))
	for _, d := range dirs {
		if filepath.Base(d) == "common" {
			continue
		}
		files, _ := filepath.Glob(filepath.Join(d, "*.go"))
		for _, f := range files {
			b, _ := os.ReadFile(f)
			for _, mm := range harnessRe.FindAllStringSubmatch(string(b), -1) {
				out = append(out, harness{Prop: mm[2], Pkg: pkgDirOf(d), Fn: mm[1], File: f})
			}
		}
	}
	sort.Slice(out, func(i, j int) bool { return out[i].Fn < out[j].Fn })
	return out
}

// harness dirs use "_" for "/" (internal_wire -> internal/wire)
func pkgDirOf(d string) string { return strings.ReplaceAll(filepath.Base(d), "__", "/") }

func pkgNameOf(pkgDir string) string { return filepath.Base(pkgDir) }

// overlayFor builds the virtual files injected into /repo: per package the common intrinsics and
// all harness files. symbolic selects the executor-side stubs instead of the native helpers.
func overlayFor(symbolic bool) (map[string][]byte, []harness) {
	hs := discover()
	ov := map[string][]byte{}
	pkgs := map[string]bool{}
	dirs, _ := filepath.Glob(filepath.Join(harnessDir, "*"))
	for _, d := range dirs {
		if filepath.Base(d) == "common" {
			continue
		}
		pkg := pkgDirOf(d)
		pkgs[pkg] = true
		files, _ := filepath.Glob(filepath.Join(d, "*.go"))
		for _, f := range files {
			b, _ := os.ReadFile(f)
			ov[filepath.Join(repoDir, pkg, "zz_verif_"+filepath.Base(f))] = b
		}
	}
	for pkg := range pkgs {
		name := pkgNameOf(pkg)
		sub := func(file string) []byte {
			b, err := os.ReadFile(filepath.Join(harnessDir, "common", file))
			if err != nil {
				fatal(2, "missing template %s: %v", file, err)
			}
			return bytes.ReplaceAll(b, []byte("PKGNAME"), []byte(name))
		}
		ov[filepath.Join(repoDir, pkg, "zz_verif_intrinsics.go")] = sub("intrinsics.go.in")
		if symbolic {
			ov[filepath.Join(repoDir, pkg, "zz_verif_stubs.go")] = sub("stubs.go.in")
		} else {
			ov[filepath.Join(repoDir, pkg, "zz_verif_native.go")] = sub("native.go.in")
			// replay test with the harness table
			var tb strings.Builder
			tb.Write(sub("replay_test.go.in"))
			tb.WriteString("\nvar vsymHarnessTable = map[string]func(){\n")
			for _, h := range hs {
				if h.Pkg == pkg {
					fmt.Fprintf(&tb, "\t%q: %s,\n", h.Fn, h.Fn)
				}
			}
			tb.WriteString("}\n")
			ov[filepath.Join(repoDir, pkg, "zz_verif_replay_test.go")] = []byte(tb.String())
		}
	}
	return ov, hs
}

func fatal(code int, f string, a ...any) {
	fmt.Printf(f+"\n", a...)
	os.RemoveAll(workDir)
	os.Exit(code)
}

// ---- native replay ----

type batchItem struct {
	Harness string          `json:"harness"`
	Inputs  []exec.InputVal `json:"inputs"`
}

type nativeResult struct {
	Status   string
	Failures []string
	Obs      []string
	Detail   string
	Crashed  bool
	Output   string
}

var builtTests = map[string]string{}

// buildNativeTest compiles the package's test binary (with the harness overlay, tag verif).
func buildNativeTest(pkg string) (string, error) {
	if b, ok := builtTests[pkg]; ok {
		return b, nil
	}
	ov, _ := overlayFor(false)
	os.MkdirAll(workDir, 0o755)
	odir := filepath.Join(workDir, "ov")
	os.RemoveAll(odir)
	os.MkdirAll(odir, 0o755)
	repl := map[string]string{}
	i := 0
	for virt, content := range ov {
		real := filepath.Join(odir, fmt.Sprintf("%d_%s", i, filepath.Base(virt)))
		i++
		if err := os.WriteFile(real, content, 0o644); err != nil {
			return "", err
		}
		repl[virt] = real
	}
	oj, _ := json.Marshal(map[string]any{"Replace": repl})
	ovFile := filepath.Join(workDir, "overlay.json")
	os.WriteFile(ovFile, oj, 0o644)
	bin := filepath.Join(workDir, "replay_"+strings.ReplaceAll(pkg, "/", "_")+".test")
	cmd := osexec.Command(filepath.Join(goBin, "go"), "test", "-c", "-vet=off", "-tags", "verif", "-overlay", ovFile, "-o", bin, "./"+pkg)
	cmd.Dir = repoDir
	cmd.Env = goEnv()
	out, err := cmd.CombinedOutput()
	if err != nil {
		return "", fmt.Errorf("native build of %s failed: %v\n%s", pkg, err, out)
	}
	builtTests[pkg] = bin
	return bin, nil
}

func goEnv() []string {
	env := os.Environ()
	env = append(env, "PATH="+goBin+":"+os.Getenv("PATH"), "GOFLAGS=-mod=mod", "GOPROXY=off", "GOSUMDB=off", "GOTOOLCHAIN=local")
	return env
}

// runNative runs a batch of vectors in one process (memory-limited) and parses the results.
func runNative(pkg string, batch []batchItem, tier string, timeoutS int) ([]nativeResult, error) {
	// Virtual-time harnesses run inside a testing/synctest bubble; pooled timers must not cross
	// bubbles, so each vector gets its own process.
	if len(batch) > 1 && strings.HasSuffix(batch[0].Harness, "VT") {
		var all []nativeResult
		for _, it := range batch {
			r, err := runNative(pkg, []batchItem{it}, tier, timeoutS)
			if err != nil {
				return nil, err
			}
			all = append(all, r...)
		}
		return all, nil
	}
	bin, err := buildNativeTest(pkg)
	if err != nil {
		return nil, err
	}
	bf := filepath.Join(workDir, fmt.Sprintf("batch_%d.json", time.Now().UnixNano()))
	bj, _ := json.Marshal(batch)
	os.WriteFile(bf, bj, 0o644)
	defer os.Remove(bf)
	script := fmt.Sprintf("ulimit -v 6000000; exec timeout %d %s -test.run '^TestVerifReplay$' -test.count=1 -test.timeout %ds", timeoutS, bin, timeoutS)
	cmd := osexec.Command("bash", "-c", script)
	cmd.Dir = filepath.Join(repoDir, pkg)
	cmd.Env = append(goEnv(), "VERIF_BATCH="+bf, "VERIF_TIER="+tier)
	out, runErr := cmd.CombinedOutput()
	res := make([]nativeResult, len(batch))
	seen := 0
	for _, line := range strings.Split(string(out), "\n") {
		if !strings.HasPrefix(line, "VERIF-RESULT ") {
			continue
		}
		parts := strings.SplitN(line, " ", 6)
		if len(parts) < 3 {
			continue
		}
		idx, _ := strconv.Atoi(parts[1])
		if idx < 0 || idx >= len(res) {
			continue
		}
		r := nativeResult{Status: parts[2]}
		if len(parts) >= 6 {
			json.Unmarshal([]byte(parts[3]), &r.Failures)
			json.Unmarshal([]byte(parts[4]), &r.Obs)
			json.Unmarshal([]byte(parts[5]), &r.Detail)
		}
		res[idx] = r
		seen++
	}
	if seen < len(batch) {
		// the process died (fatal error, timeout, OOM) while running vector #seen
		tail := string(out)
		if len(tail) > 1500 {
			tail = tail[:700] + "\n...\n" + tail[len(tail)-700:]
		}
		for i := range res {
			if res[i].Status == "" {
				res[i] = nativeResult{Status: "crash", Crashed: true, Output: tail, Detail: fmt.Sprint(runErr)}
				break
			}
		}
	}
	return res, nil
}

// ---- known findings ----

type knownFinding struct {
	Status   string `json:"status"` // "open" or "fixed"
	Property string `json:"property"`
	Harness  string `json:"harness"`
	Label    string `json:"label"`
	Kind     string `json:"kind"`
	Region   string `json:"region"`
	What     string `json:"what"`
	Commit   string `json:"commit,omitempty"`
}

func loadKnown() []knownFinding {
	b, err := os.ReadFile(filepath.Join(verifDir, "known_findings.json"))
	if err != nil {
		return nil
	}
	var k struct {
		Findings []knownFinding `json:"findings"`
	}
	if err := json.Unmarshal(b, &k); err != nil {
		fatal(2, "known_findings.json: %v", err)
	}
	return k.Findings
}

func matchKnown(ks []knownFinding, prop string, v exec.Violation) *knownFinding {
	for i := range ks {
		k := &ks[i]
		if k.Status != "open" || k.Property != prop || k.Harness != v.Harness || k.Label != v.Label {
			continue
		}
		if k.Kind != "" && k.Kind != v.Kind {
			continue
		}
		if k.Region == "" {
			continue // a finding must name the region (specific failing inputs) it covers
		}
		for _, r := range v.Regions {
			if r == k.Region {
				return k
			}
		}
	}
	return nil
}

// ---- evidence ----

type harnessEvidence struct {
	Harness       string            `json:"harness"`
	Package       string            `json:"package"`
	Paths         int               `json:"paths"`
	Completed     int               `json:"completed_paths"`
	Pruned        int               `json:"pruned_paths"`
	Blocked       int               `json:"blocked_paths"`
	Obligations   int               `json:"obligations_discharged_unsat"`
	Queries       map[string]int    `json:"queries"`
	SolverS       float64           `json:"solver_s"`
	MaxQueryS     float64           `json:"max_query_s"`
	Steps         int64             `json:"ssa_instructions_executed"`
	MaxPathSteps  int64             `json:"max_path_instructions"`
	MaxDepth      int               `json:"max_call_depth"`
	Reach         map[string]int    `json:"reach_witnesses"`
	Ends          map[string]int    `json:"path_ends"`
	WallS         float64           `json:"wall_s"`
	Validated     int               `json:"vectors_validated_native"`
	Samples       []exec.PathSample `json:"samples,omitempty"`
	Problems      []string          `json:"problems,omitempty"`
	MaxAllocBytes int64             `json:"max_concrete_alloc_bytes"`
}

type propMeta struct {
	Functions []string          `json:"functions_encoded"`
	Bounds    map[string]string `json:"bounds"`
	Outside   []string          `json:"outside_claim"`
	Stubs     []string          `json:"models_and_stubs"`
	Assume    []string          `json:"assumptions"`
}

func loadMeta(prop string) propMeta {
	var all map[string]propMeta
	b, err := os.ReadFile(filepath.Join(verifDir, "harness", "meta.json"))
	if err == nil {
		json.Unmarshal(b, &all)
	}
	return all[prop]
}

func main() {
	tier := flag.String("tier", "", "quick|thorough (default: $VERIF_TIER or quick)")
	oneFn := flag.String("fn", "", "run a single harness function (development)")
	workers := flag.Int("workers", 16, "parallel workers")
	trace := flag.Bool("trace", false, "trace instructions")
	maxPaths := flag.Int("maxpaths", 0, "path limit")
	slog := flag.String("solverlog", "", "dir for solver transcripts")
	noNative := flag.Bool("nonative", false, "skip native replay / self-check (development)")
	solverKind := flag.String("solver", "z3", "z3|z3-new|cvc5")
	replayFile := flag.String("replay", "", "replay a stored counterexample vector natively")
	flag.CommandLine.Parse(reorderArgs(os.Args[1:]))
	if *tier == "" {
		*tier = os.Getenv("VERIF_TIER")
	}
	if *tier != "thorough" {
		*tier = "quick"
	}
	seed, _ := strconv.Atoi(os.Getenv("VERIF_SEED"))
	if v := os.Getenv("VERIF_REPO"); v != "" {
		repoDir = v
	}
	// the verification tree is wherever this binary lives (<verif>/bin/vcheck): a snapshot of
	// /verif run elsewhere uses its own harnesses and writes its own evidence
	if exe, err := os.Executable(); err == nil {
		root := filepath.Dir(filepath.Dir(exe))
		if st, err := os.Stat(filepath.Join(root, "harness", "common")); err == nil && st.IsDir() {
			verifDir = root
			harnessDir = filepath.Join(root, "harness")
		}
	}
	evidenceDir = filepath.Join(verifDir, "evidence")
	if v := os.Getenv("VERIF_EVIDENCE_DIR"); v != "" {
		evidenceDir = v
	}
	// one scratch directory per process, removed on exit, so concurrent checks never share build output
	workDir = filepath.Join(verifDir, ".work", fmt.Sprintf("p%d", os.Getpid()))

	if *replayFile != "" {
		rc := doReplay(*replayFile, *tier)
		if os.Getenv("VERIF_KEEP_WORK") == "" {
			os.RemoveAll(workDir)
		} else {
			fmt.Println("work dir kept:", workDir)
		}
		os.Exit(rc)
	}

	prop := flag.Arg(0)
	if prop == "" && *oneFn == "" {
		fatal(2, "usage: vcheck <Cnn> [--tier quick|thorough]")
	}
	t0 := time.Now()
	ov, hs := overlayFor(true)
	var todo []harness
	for _, h := range hs {
		if (*oneFn != "" && h.Fn == *oneFn) || (*oneFn == "" && h.Prop == prop) {
			todo = append(todo, h)
		}
	}
	if len(todo) == 0 {
		fatal(2, "no harness for %s%s", prop, *oneFn)
	}
	if prop == "" {
		prop = todo[0].Prop
	}
	pkgSet := map[string]bool{}
	var patterns []string
	for _, h := range todo {
		if !pkgSet[h.Pkg] {
			pkgSet[h.Pkg] = true
			patterns = append(patterns, "./"+h.Pkg)
		}
	}
	w, err := exec.Load(repoDir, patterns, ov, "verif")
	if err != nil {
		fmt.Printf("HARNESS-DOES-NOT-APPLY property=%s: the harness overlay does not type-check against this tree\n%v\n", prop, err)
		writeEvidence(prop, *tier, seed, nil, nil, time.Since(t0).Seconds(), 0, []string{"harness does not compile against this tree: " + err.Error()}, w)
		os.Exit(2)
	}
	if *tier == "thorough" {
		w.Tier = 1
	}
	fmt.Printf("[%s] loaded %v (+overlay) in %.1fs; tier=%s\n", prop, patterns, w.LoadSecs, *tier)

	known := loadKnown()
	var evs []harnessEvidence
	var problems []string
	exit := 0
	violations := 0
	setExit := func(c int) {
		// precedence: 1 (violation) > 3 (non-reproducing) > 2 (inconclusive)
		rank := map[int]int{0: 0, 2: 1, 3: 2, 1: 3}
		if rank[c] > rank[exit] {
			exit = c
		}
	}
	for _, h := range todo {
		f := w.FindFunc(w.ModPath+"/"+h.Pkg, h.Fn)
		if f == nil {
			problems = append(problems, "harness function not found: "+h.Fn)
			setExit(2)
			continue
		}
		opt := exec.Options{Workers: *workers, Trace: *trace, MaxPaths: *maxPaths, SolverLogDir: *slog, SolverKind: *solverKind, MaxModels: 24, Progress: os.Getenv("VERIF_PROGRESS") != ""}
		if *tier == "thorough" {
			opt.TimeoutMS = 120000
			opt.MaxModels = 96
		}
		res := w.Explore(f, opt)
		ev := harnessEvidence{Harness: h.Fn, Package: h.Pkg, Paths: res.Paths, Completed: res.Completed, Pruned: res.Pruned, Blocked: res.Blocked,
			Obligations: res.Obligations, Queries: map[string]int{"sat": res.Solver.SatN, "unsat": res.Solver.UnsatN, "unknown": res.Solver.UnknownN, "error": res.Solver.Errors},
			SolverS: round3(res.Solver.Seconds), MaxQueryS: round3(res.Solver.MaxQuery), Steps: res.Steps, MaxPathSteps: res.MaxSteps, MaxDepth: res.MaxDepth,
			Reach: res.Reached, Ends: res.Ends, WallS: round3(res.Seconds), Samples: res.Samples, MaxAllocBytes: res.MaxAlloc}
		fmt.Printf("[%s] %s: paths=%d completed=%d pruned=%d blocked=%d obligations=%d queries=%d (sat %d unsat %d unknown %d) solver=%.1fs wall=%.1fs\n",
			prop, h.Fn, res.Paths, res.Completed, res.Pruned, res.Blocked, res.Obligations, res.Solver.Queries, res.Solver.SatN, res.Solver.UnsatN, res.Solver.UnknownN, res.Solver.Seconds, res.Seconds)
		// fail-closed conditions
		for _, b := range res.BoundHit {
			ev.Problems = append(ev.Problems, "bound exceeded: "+b)
		}
		for _, b := range res.Unsupported {
			ev.Problems = append(ev.Problems, b)
		}
		for _, b := range res.Internal {
			ev.Problems = append(ev.Problems, b)
		}
		if res.Unknowns > 0 {
			ev.Problems = append(ev.Problems, fmt.Sprintf("solver inconclusive on %d queries", res.Unknowns))
		}
		if res.Truncated {
			ev.Problems = append(ev.Problems, "exploration truncated (path/time limit)")
		}
		if res.Completed == 0 && len(res.Violations) == 0 {
			ev.Problems = append(ev.Problems, "vacuous: no path reached the end of the harness")
		}
		for l := range res.Expected {
			if res.Reached[l] == 0 {
				ev.Problems = append(ev.Problems, "vacuous: expected label never reached: "+l)
			}
		}
		if *oneFn != "" {
			for _, v := range res.Violations {
				fmt.Printf("  viol %s/%s regions=%v: %s\n    inputs=%v\n    stack=%s\n", v.Kind, v.Label, v.Regions, v.Detail, v.Inputs, v.Stack)
			}
		}
		// violations: replay natively
		for _, v := range res.Violations {
			vecPath := saveVector(prop, h, v)
			status := "unreplayed"
			if !*noNative {
				nr, err := runNative(h.Pkg, []batchItem{{Harness: h.Fn, Inputs: v.Inputs}}, *tier, 120)
				if err != nil {
					ev.Problems = append(ev.Problems, err.Error())
					setExit(2)
					continue
				}
				status = nr[0].Status
				confirmed := false
				switch v.Kind {
				case "assert":
					confirmed = status == "fail" && containsStr(nr[0].Failures, v.Label)
				case "panic":
					confirmed = status == "panic" || status == "crash"
				case "alloc":
					// the native run either dies under the memory limit or survives a huge
					// allocation; both confirm the size computation — measured separately
					confirmed = status == "crash" || status == "panic" || (status == "fail" && containsStr(nr[0].Failures, "alloc-bound"))
				case "blocked":
					confirmed = status == "crash"
				case "steps":
					// the native watchdog aborts a bounded region that is still running after 10 s
					confirmed = status == "crash"
				}
				if !confirmed && (status == "fail" || status == "panic" || status == "crash") {
					// fails natively, though with another label: still a real failure
					confirmed = true
				}
				if !confirmed && v.Scheduled {
					// the counterexample is a schedule (one preemption of the spawned goroutines) as well as an
					// input vector; a native run cannot be forced onto that schedule. Not reported as VIOLATION
					// (nothing is, unless it reproduces against the native build); exit 3.
					end, pp := w.RunPinned(f, v.Inputs, exec.Options{})
					again := "does not reproduce"
					for _, pv := range pp.Violations {
						if pv.Label == v.Label {
							again = "reproduces"
						}
					}
					fmt.Printf("SCHEDULE-DEPENDENT property=%s harness=%s label=%s: needs the preemption recorded in the vector; the native scheduler did not take it (native status %s); concrete re-execution in the executor under the recorded schedule %s (end %s) vector=%s\n", prop, h.Fn, v.Label, status, again, end, vecPath)
					ev.Problems = append(ev.Problems, fmt.Sprintf("schedule-dependent counterexample for %s: native run did not take the schedule (status %s); executor re-execution %s", v.Label, status, again))
					setExit(3)
					continue
				}
				if !confirmed {
					fmt.Printf("INCONCLUSIVE property=%s harness=%s label=%s: counterexample did not reproduce natively (status %s) vector=%s\n", prop, h.Fn, v.Label, status, vecPath)
					ev.Problems = append(ev.Problems, fmt.Sprintf("counterexample for %s did not reproduce natively (status %s)", v.Label, status))
					setExit(3)
					continue
				}
			}
			if k := matchKnown(known, prop, v); k != nil {
				fmt.Printf("KNOWN-FINDING: property=%s %s [harness %s label %s region %s]\n", prop, k.What, h.Fn, v.Label, k.Region)
				continue
			}
			violations++
			fmt.Printf("VIOLATION property=%s replay=%s\n", prop, vecPath)
			fmt.Printf("  harness=%s kind=%s label=%s regions=%v native=%s\n  %s\n  at %s\n", h.Fn, v.Kind, v.Label, v.Regions, status, v.Detail, v.Stack)
			setExit(1)
		}
		// differential self-check: executor (pinned) vs native on models of completed paths
		if !*noNative && len(res.Models) > 0 {
			n, probs := selfCheck(w, f, h, res.Models, *tier)
			ev.Validated = n
			ev.Problems = append(ev.Problems, probs...)
		}
		if len(ev.Problems) > 0 {
			setExit(2)
			for _, p := range ev.Problems {
				fmt.Printf("[%s] %s PROBLEM: %s\n", prop, h.Fn, firstLines(p, 6))
			}
		}
		evs = append(evs, ev)
	}
	wall := time.Since(t0).Seconds()
	writeEvidence(prop, *tier, seed, evs, todo, wall, violations, problems, w)
	fmt.Printf("[%s] exit=%d wall=%.1fs\n", prop, exit, wall)
	os.RemoveAll(workDir)
	os.Exit(exit)
}

func nonNil(s []string) []string {
	if s == nil {
		return []string{}
	}
	return s
}

func nativeAllocExceeded(r nativeResult) bool { return false }

func firstLines(s string, n int) string {
	ls := strings.Split(s, "\n")
	if len(ls) > n {
		ls = ls[:n]
	}
	return strings.Join(ls, "\n")
}

func containsStr(ss []string, s string) bool {
	for _, x := range ss {
		if x == s {
			return true
		}
	}
	return false
}

func round3(f float64) float64 { return float64(int64(f*1000+0.5)) / 1000 }

// reorderArgs lets flags follow the positional property id.
func reorderArgs(args []string) []string {
	var flags, pos []string
	for i := 0; i < len(args); i++ {
		a := args[i]
		if strings.HasPrefix(a, "-") {
			flags = append(flags, a)
			if !strings.Contains(a, "=") && i+1 < len(args) && !strings.HasPrefix(args[i+1], "-") && !isBoolFlag(a) {
				flags = append(flags, args[i+1])
				i++
			}
		} else {
			pos = append(pos, a)
		}
	}
	return append(flags, pos...)
}

func isBoolFlag(a string) bool {
	a = strings.TrimLeft(a, "-")
	return a == "trace" || a == "nonative"
}

type vectorFile struct {
	Property string          `json:"property"`
	Harness  string          `json:"harness"`
	Package  string          `json:"package"`
	Kind     string          `json:"kind"`
	Label    string          `json:"label"`
	Regions  []string        `json:"regions,omitempty"`
	Detail   string          `json:"detail"`
	Stack    string          `json:"stack"`
	Inputs   []exec.InputVal `json:"inputs"`
}

func saveVector(prop string, h harness, v exec.Violation) string {
	dir := filepath.Join(verifDir, "replays", prop)
	os.MkdirAll(dir, 0o755)
	vf := vectorFile{Property: prop, Harness: h.Fn, Package: h.Pkg, Kind: v.Kind, Label: v.Label, Regions: v.Regions, Detail: v.Detail, Stack: v.Stack, Inputs: v.Inputs}
	b, _ := json.MarshalIndent(vf, "", " ")
	sum := sha1.Sum(b)
	p := filepath.Join(dir, fmt.Sprintf("%s-%s-%x.json", h.Fn, sanitize(v.Label), sum[:4]))
	os.WriteFile(p, b, 0o644)
	return p
}

func sanitize(s string) string {
	return regexp.MustCompile(`[^A-Za-z0-9_.-]`).ReplaceAllString(s, "_")
}

func doReplay(path, tier string) int {
	b, err := os.ReadFile(path)
	if err != nil {
		fatal(2, "%v", err)
	}
	var vf vectorFile
	if err := json.Unmarshal(b, &vf); err != nil {
		fatal(2, "%v", err)
	}
	nr, err := runNative(vf.Package, []batchItem{{Harness: vf.Harness, Inputs: vf.Inputs}}, tier, 300)
	if err != nil {
		fatal(2, "%v", err)
	}
	r := nr[0]
	fmt.Printf("replay %s: harness=%s status=%s failures=%v detail=%s\n", path, vf.Harness, r.Status, r.Failures, r.Detail)
	if r.Crashed {
		fmt.Println(r.Output)
	}
	if r.Status == "pass" || r.Status == "assume-false" {
		return 0
	}
	return 1
}

// selfCheck runs the harness on concrete vectors both in the executor (pinned, no solver) and in
// the natively compiled package and compares outcome and observation traces.
func selfCheck(w *exec.World, f any, h harness, models [][]exec.InputVal, tier string) (int, []string) {
	fn := w.FindFunc(w.ModPath+"/"+h.Pkg, h.Fn)
	var batch []batchItem
	for _, mv := range models {
		batch = append(batch, batchItem{Harness: h.Fn, Inputs: mv})
	}
	nrs, err := runNative(h.Pkg, batch, tier, 300)
	if err != nil {
		return 0, []string{"self-check: " + err.Error()}
	}
	var probs []string
	ok := 0
	for i, mv := range models {
		end, p := w.RunPinned(fn, mv, exec.Options{})
		nat := nrs[i]
		if nat.Status == "" {
			continue // not run (an earlier vector crashed the process)
		}
		want := "pass"
		switch {
		case end == "assume-false":
			want = "assume-false"
		case len(p.Violations) > 0 && p.Violations[0].Kind == "panic":
			want = "panic"
		case len(p.Violations) > 0:
			want = "fail"
		case end != "done":
			want = "?" + end
		}
		if want != nat.Status {
			probs = append(probs, fmt.Sprintf("self-check mismatch on vector %d of %s: executor=%s (end %s) native=%s %s inputs=%v %s", i, h.Fn, want, end, nat.Status, nat.Detail, mv, nat.Output))
			continue
		}
		if !equalStrs(p.Observed, nat.Obs) {
			probs = append(probs, fmt.Sprintf("self-check observation mismatch on vector %d of %s:\n executor=%v\n native=%v\n inputs=%v", i, h.Fn, p.Observed, nat.Obs, mv))
			continue
		}
		ok++
	}
	if len(probs) > 4 {
		probs = append(probs[:4], fmt.Sprintf("(%d more self-check mismatches)", len(probs)-4))
	}
	return ok, probs
}

func equalStrs(a, b []string) bool {
	if len(a) != len(b) {
		return false
	}
	for i := range a {
		if a[i] != b[i] {
			return false
		}
	}
	return true
}

func writeEvidence(prop, tier string, seed int, evs []harnessEvidence, hs []harness, wall float64, violations int, problems []string, w *exec.World) {
	meta := loadMeta(prop)
	states, trans, validated, oblig := 0, 0, 0, 0
	solverS := 0.0
	var samples []any
	q := map[string]int{}
	for _, e := range evs {
		states += e.Paths
		for k, v := range e.Queries {
			q[k] += v
			trans += v
		}
		validated += e.Validated
		oblig += e.Obligations
		solverS += e.SolverS
		for i, s := range e.Samples {
			if i < 3 {
				samples = append(samples, map[string]any{"harness": e.Harness, "path": s})
			}
		}
		problems = append(problems, e.Problems...)
	}
	if len(samples) == 0 {
		samples = append(samples, map[string]any{"note": "no path completed"})
	}
	var fns []string
	if w != nil {
		for _, f := range w.RepoFuncs() {
			fns = append(fns, f)
		}
	}
	cov := map[string]any{
		"states":                        states,
		"transitions":                   trans,
		"traces_validated_against_impl": validated,
		"samples":                       samples,
		"exhaustive":                    false,
		"rule":                          "states = feasible execution paths of the harness explored by the symbolic executor over the real SSA of /repo; transitions = SMT queries discharged; every path's assertions are decided for ALL input values consistent with the path condition",
		"obligations_unsat":             oblig,
		"queries":                       q,
		"solver_s":                      round3(solverS),
		"harnesses":                     evs,
		"functions_encoded":             meta.Functions,
		"functions_executed":            fns,
		"bounds":                        meta.Bounds,
		"outside_claim":                 meta.Outside,
		"models_and_stubs":              meta.Stubs,
		"problems":                      problems,
		"solver":                        "z3 4.8.12 via one persistent `z3 -in` per worker (push/pop per path)",
	}
	ev := map[string]any{
		"property_id": prop,
		"tier":        tier,
		"seed":        seed,
		"level":       "model_checking",
		"coverage":    cov,
		"assumptions": nonNil(meta.Assume),
		"wall_s":      round3(wall),
		"violations":  violations,
	}
	if states == 0 {
		cov["states"] = 1 // schema minimum; the problems list says what happened
		cov["transitions"] = 1
	} else if trans == 0 {
		cov["transitions"] = 1
	}
	os.MkdirAll(evidenceDir, 0o755)
	b, _ := json.MarshalIndent(ev, "", " ")
	os.WriteFile(filepath.Join(evidenceDir, prop+".json"), b, 0o644)
}
