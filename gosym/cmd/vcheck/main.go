package main

import (
	"flag"
	"fmt"
	"os"
	"path/filepath"
	"strings"

	"gosym/exec"
)

func main() {
	repo := flag.String("repo", "/repo", "repository root")
	hdir := flag.String("harness", "/verif/harness", "harness root (sub-dir per package)")
	pkg := flag.String("pkg", "secs2", "package dir under repo")
	fn := flag.String("fn", "", "harness function")
	workers := flag.Int("workers", 16, "workers")
	trace := flag.Bool("trace", false, "trace instructions")
	maxPaths := flag.Int("maxpaths", 0, "path limit")
	slog := flag.String("solverlog", "", "dir for solver transcripts")
	flag.Parse()

	overlay := map[string][]byte{}
	files, _ := filepath.Glob(filepath.Join(*hdir, *pkg, "*.go"))
	for _, f := range files {
		b, err := os.ReadFile(f)
		if err != nil {
			panic(err)
		}
		if strings.HasSuffix(f, "_native.go") || strings.HasSuffix(f, "_test.go") {
			continue
		}
		overlay[filepath.Join(*repo, *pkg, "zz_verif_"+filepath.Base(f))] = b
	}
	w, err := exec.Load(*repo, []string{"./" + *pkg}, overlay, "verif")
	if err != nil {
		fmt.Println("LOAD ERROR:", err)
		os.Exit(2)
	}
	fmt.Printf("loaded in %.1fs, module %s\n", w.LoadSecs, w.ModPath)
	f := w.FindFunc(w.ModPath+"/"+*pkg, *fn)
	if f == nil {
		fmt.Println("no such harness", *fn)
		os.Exit(2)
	}
	res := w.Explore(f, exec.Options{Workers: *workers, Trace: *trace, MaxPaths: *maxPaths, SolverLogDir: *slog})
	fmt.Printf("paths=%d completed=%d pruned=%d blocked=%d obligations=%d sat=%d unknowns=%d steps=%d maxdepth=%d secs=%.2f\n",
		res.Paths, res.Completed, res.Pruned, res.Blocked, res.Obligations, res.ObligSat, res.Unknowns, res.Steps, res.MaxDepth, res.Seconds)
	fmt.Printf("solver: %+v\n", res.Solver)
	fmt.Printf("ends: %v\nreached: %v\n", res.Ends, res.Reached)
	for _, b := range res.BoundHit {
		fmt.Println("BOUND:", b)
	}
	for _, b := range res.Unsupported {
		fmt.Println("UNSUPPORTED:", b)
	}
	for _, b := range res.Internal {
		fmt.Println("INTERNAL:", b)
	}
	for _, v := range res.Violations {
		fmt.Printf("VIOL %s/%s: %s\n  inputs=%v\n  stack=%s\n", v.Kind, v.Label, v.Detail, v.Inputs, v.Stack)
	}
	for _, s := range res.Samples {
		fmt.Printf("sample: %+v\n", s)
	}
}
