package exec

// The interpreter proper: executes go/ssa functions over the value representation of value.go,
// forking at symbolic branches through Path. Structure follows golang.org/x/tools/go/ssa/interp.

import (
	"fmt"
	"go/token"
	"go/types"
	"runtime/debug"
	"slices"
	"strings"

	"golang.org/x/tools/go/ssa"
)

type continuation int

const (
	kNext continuation = iota
	kReturn
	kJump
)

// targetPanic is the Go panic value used while a target-program panic propagates.
type targetPanic struct {
	v       value
	runtime bool   // raised by the run time (index out of range, nil deref, ...)
	msg     string // human-readable
	stack   string
}

type internalErr struct {
	v       any
	stack   string
	gostack string
}

// Machine executes one path.
type Machine struct {
	prog    *ssa.Program
	world   *World
	globals map[*ssa.Global]*value
	tt      *TermTab
	path    *Path
	steps   int64
	depth   int
	maxDep  int
	cur     *frame // innermost frame of the running coroutine (diagnostics)
	sched   *scheduler
	inited  map[*ssa.Package]bool
	// model state
	clock       int64 // virtual monotonic clock, ns
	clockTerm   *Term // optional symbolic offset
	timers      []*vtimer
	models      map[any]any
	allocs      int64
	fmtMemo     map[string]value
	trace       bool
	initDirect  *ssa.Function
	fpMemo      map[fpKey]*Term
	fpOrigin    map[*Term]*Term // float64 var -> the float32 term it widens
	preemptAt   int             // -1: off; k: preempt before the k-th call instruction of spawned goroutines
	preemptSeen int
	preemptHit  bool
	stepBound   int64                  // absolute step count at which the armed step bound is exceeded (0: not armed)
	preemptEver bool                   // a preemption was armed at some point of this path (its outcome depends on a schedule)
	fnSeen      map[*ssa.Function]bool // functions whose SSA body was executed on this path (evidence)
	fmtOpaque   bool                   // fmt verbs render symbolic scalar/string operands as "?" (vsymFmtOpaque)
	poolReuse   bool                   // sync.Pool.Get returns the most recently Put object (LIFO) instead of always missing
	pools       map[*value][]value
}

type deferred struct {
	fn    value
	args  []value
	instr *ssa.Defer
	tail  *deferred
}

type frame struct {
	m                *Machine
	caller           *frame
	fn               *ssa.Function
	block, prevBlock *ssa.BasicBlock
	env              map[ssa.Value]value
	locals           []value
	defers           *deferred
	result           value
	panicking        bool
	panic            any
	phitemps         []value
	pos              token.Pos
}

func (fr *frame) get(key ssa.Value) value {
	switch key := key.(type) {
	case nil:
		return nil
	case *ssa.Function, *ssa.Builtin:
		return key
	case *ssa.Const:
		return fr.m.constValue(key)
	case *ssa.Global:
		if pkg := key.Pkg; pkg != nil && !fr.m.inited[pkg] {
			fr.m.ensureInit(pkg)
		}
		if r, ok := fr.m.globals[key]; ok {
			return r
		}
		return fr.m.globalCell(key)
	}
	if r, ok := fr.env[key]; ok {
		return r
	}
	panic(fmt.Sprintf("get: no value for %T: %v in %s", key, key.Name(), fr.fn))
}

func (m *Machine) globalCell(g *ssa.Global) *value {
	if r, ok := m.globals[g]; ok {
		return r
	}
	cell := new(value)
	*cell = m.zero(mustDeref(g.Type()))
	m.globals[g] = cell
	return cell
}

// ensureInit runs the initialiser of pkg on first touch of one of its globals. Package
// initialisation is lazy and per package (the import cascade inside the synthesized init
// functions is suppressed): packages whose variables a path never touches cost nothing.
func (m *Machine) ensureInit(pkg *ssa.Package) {
	if m.inited[pkg] {
		return
	}
	m.inited[pkg] = true
	if !m.world.initAllowed(pkg) {
		return
	}
	initFn := pkg.Func("init")
	if initFn == nil || initFn.Blocks == nil {
		return
	}
	saved := m.cur
	savedDepth := m.depth
	m.initDirect = initFn
	m.callSSA(nil, token.NoPos, initFn, nil, nil)
	m.cur = saved
	m.depth = savedDepth
}

func mustDeref(t types.Type) types.Type {
	if p, ok := t.Underlying().(*types.Pointer); ok {
		return p.Elem()
	}
	panic("mustDeref: not a pointer: " + t.String())
}

func (m *Machine) constValue(c *ssa.Const) value {
	if c.Value == nil {
		return m.zero(c.Type())
	}
	t := c.Type().Underlying()
	if b, ok := t.(*types.Basic); ok {
		if b.Info()&types.IsString != 0 {
			return constStringVal(c)
		}
		k := basicKind(b)
		if !k.ok {
			panic(fmt.Sprintf("constValue: unsupported basic type %s", b))
		}
		switch {
		case k.isBool:
			return m.tt.Bool(constBool(c))
		case k.float:
			f := c.Float64()
			if k.w == 32 {
				return m.tt.Const(32, uint64(f32bits(float32(f))))
			}
			return m.tt.Const(64, f64bits(f))
		case k.signed:
			return m.tt.Const(k.w, uint64(c.Int64()))
		default:
			return m.tt.Const(k.w, c.Uint64())
		}
	}
	panic(fmt.Sprintf("constValue: unexpected type %s", c.Type()))
}

// runtimePanic raises a Go run-time error in the target program.
func (m *Machine) runtimePanic(msg string) {
	panic(targetPanic{v: iface{t: types.Typ[types.String], v: msg}, runtime: true, msg: msg, stack: m.stackString()})
}

func (m *Machine) unsupported(what string) {
	m.path.end("unsupported: " + what + " @ " + m.stackString())
}

func (m *Machine) stackString() string {
	var sb strings.Builder
	n := 0
	for fr := m.cur; fr != nil && n < 14; fr = fr.caller {
		if n > 0 {
			sb.WriteString(" < ")
		}
		sb.WriteString(fr.fn.String())
		if fr.pos.IsValid() {
			p := m.prog.Fset.Position(fr.pos)
			fmt.Fprintf(&sb, ":%d", p.Line)
		}
		n++
	}
	return sb.String()
}

// ---- defers / panics ----

func (fr *frame) runDefer(d *deferred) {
	var ok bool
	defer func() {
		if !ok {
			r := recover()
			if _, isT := r.(targetPanic); !isT {
				panic(r) // engine-level unwinding: not visible to the target program
			}
			fr.panicking = true
			fr.panic = r
		}
	}()
	fr.m.call(fr, d.instr.Pos(), d.fn, d.args)
	ok = true
}

func (fr *frame) runDefers() {
	for d := fr.defers; d != nil; d = d.tail {
		fr.runDefer(d)
	}
	fr.defers = nil
	if fr.panicking {
		panic(fr.panic)
	}
}

func (m *Machine) lookupMethod(typ types.Type, meth *types.Func) *ssa.Function {
	return m.prog.LookupMethod(typ, meth.Pkg(), meth.Name())
}

// ---- instruction dispatch ----

func (m *Machine) visitInstr(fr *frame, instr ssa.Instruction) continuation {
	m.steps++
	if m.stepBound > 0 && m.steps > m.stepBound {
		// the harness bounded the work of the code under test (vsymStepBound): running past it is a
		// termination / complexity obligation, reported like a panic
		m.stepBound = 0
		m.path.violation("steps", "terminates-within-the-step-bound", fmt.Sprintf("more than the allowed SSA instructions executed @ %s", m.stackString()), m)
		m.path.end("violation")
	}
	if m.steps > m.path.limits.MaxSteps {
		m.path.end("bound: step limit")
	}
	if p := instr.Pos(); p.IsValid() {
		fr.pos = p
	}
	switch instr := instr.(type) {
	case *ssa.DebugRef:
		// no-op

	case *ssa.UnOp:
		fr.env[instr] = m.unop(instr, fr.get(instr.X))

	case *ssa.BinOp:
		fr.env[instr] = m.binop(instr.Op, instr.X.Type(), instr.Y.Type(), fr.get(instr.X), fr.get(instr.Y))

	case *ssa.Call:
		fn, args := m.prepareCall(fr, &instr.Call)
		if m.preemptAt >= 0 && m.sched != nil && m.sched.cur != nil && m.sched.cur.id != 0 {
			// one scheduled preemption (vsymPreemptAt): before the k-th call instruction executed by
			// spawned goroutines, every other goroutine runs until it blocks or finishes
			if m.preemptSeen == m.preemptAt {
				m.preemptSeen++
				m.preemptHit = true
				m.yield()
			} else {
				m.preemptSeen++
			}
		}
		fr.env[instr] = m.call(fr, instr.Pos(), fn, args)

	case *ssa.ChangeInterface:
		fr.env[instr] = fr.get(instr.X)

	case *ssa.ChangeType:
		fr.env[instr] = fr.get(instr.X)

	case *ssa.Convert:
		fr.env[instr] = m.conv(instr.Type(), instr.X.Type(), fr.get(instr.X))

	case *ssa.SliceToArrayPointer:
		fr.env[instr] = m.sliceToArrayPointer(instr.Type(), fr.get(instr.X))

	case *ssa.MakeInterface:
		fr.env[instr] = iface{t: instr.X.Type(), v: fr.get(instr.X)}

	case *ssa.Extract:
		fr.env[instr] = fr.get(instr.Tuple).(tuple)[instr.Index]

	case *ssa.Slice:
		fr.env[instr] = m.slice(instr, fr.get(instr.X), fr.get(instr.Low), fr.get(instr.High), fr.get(instr.Max))

	case *ssa.Return:
		switch len(instr.Results) {
		case 0:
		case 1:
			fr.result = fr.get(instr.Results[0])
		default:
			res := make(tuple, 0, len(instr.Results))
			for _, r := range instr.Results {
				res = append(res, fr.get(r))
			}
			fr.result = res
		}
		fr.block = nil
		return kReturn

	case *ssa.RunDefers:
		fr.runDefers()

	case *ssa.Panic:
		v := fr.get(instr.X)
		panic(targetPanic{v: v, msg: "panic: " + m.panicText(v), stack: m.stackString()})

	case *ssa.Send:
		m.chanSend(fr.get(instr.Chan).(*vchan), fr.get(instr.X))

	case *ssa.Store:
		m.storeTo(fr.get(instr.Addr), fr.get(instr.Val))

	case *ssa.If:
		succ := 1
		c := fr.get(instr.Cond).(*Term)
		if m.path.Branch(c, "if") {
			succ = 0
		}
		fr.prevBlock, fr.block = fr.block, fr.block.Succs[succ]
		return kJump

	case *ssa.Jump:
		fr.prevBlock, fr.block = fr.block, fr.block.Succs[0]
		return kJump

	case *ssa.Defer:
		fn, args := m.prepareCall(fr, &instr.Call)
		defers := &fr.defers
		if instr.DeferStack != nil {
			if into := fr.get(instr.DeferStack); into != nil {
				defers = into.(**deferred)
			}
		}
		*defers = &deferred{fn: fn, args: args, instr: instr, tail: *defers}

	case *ssa.Go:
		fn, args := m.prepareCall(fr, &instr.Call)
		m.spawn(fn, args, instr.Pos())

	case *ssa.MakeChan:
		n := m.path.Concretise(fr.get(instr.Size).(*Term), "chan-size")
		fr.env[instr] = m.newChan(int(n))

	case *ssa.Alloc:
		var addr *value
		if instr.Heap {
			addr = new(value)
			fr.env[instr] = addr
		} else {
			addr = fr.env[instr].(*value)
		}
		*addr = m.zero(mustDeref(instr.Type()))

	case *ssa.MakeSlice:
		fr.env[instr] = m.makeSlice(instr, fr.get(instr.Len).(*Term), fr.get(instr.Cap).(*Term))

	case *ssa.MakeMap:
		fr.env[instr] = &omap{keyType: instr.Type().Underlying().(*types.Map).Key()}

	case *ssa.Range:
		fr.env[instr] = m.rangeIter(fr.get(instr.X))

	case *ssa.Next:
		fr.env[instr] = fr.get(instr.Iter).(iter).next(m)

	case *ssa.FieldAddr:
		p := m.derefPtr(fr.get(instr.X))
		fr.env[instr] = &(*p).(structure)[instr.Field]

	case *ssa.Field:
		fr.env[instr] = fr.get(instr.X).(structure)[instr.Field]

	case *ssa.IndexAddr:
		fr.env[instr] = m.indexAddr(instr, fr.get(instr.X), fr.get(instr.Index).(*Term))

	case *ssa.Index:
		fr.env[instr] = m.index(instr, fr.get(instr.X), fr.get(instr.Index).(*Term))

	case *ssa.Lookup:
		fr.env[instr] = m.lookup(instr, fr.get(instr.X), fr.get(instr.Index))

	case *ssa.MapUpdate:
		mp := fr.get(instr.Map).(*omap)
		if mp == nil {
			m.runtimePanic("assignment to entry in nil map")
		}
		m.mapInsert(mp, fr.get(instr.Key), copyVal(fr.get(instr.Value)))

	case *ssa.TypeAssert:
		fr.env[instr] = m.typeAssert(instr, fr.get(instr.X).(iface))

	case *ssa.MakeClosure:
		var bindings []value
		for _, binding := range instr.Bindings {
			bindings = append(bindings, fr.get(binding))
		}
		fr.env[instr] = &closure{instr.Fn.(*ssa.Function), bindings}

	case *ssa.Phi:
		panic("unreachable: phi")

	case *ssa.Select:
		fr.env[instr] = m.doSelect(fr, instr)

	default:
		panic(fmt.Sprintf("unexpected instruction: %T", instr))
	}
	return kNext
}

// derefPtr returns the cell a pointer value designates, raising a nil-dereference panic.
func (m *Machine) derefPtr(p value) *value {
	switch p := p.(type) {
	case *value:
		if p == nil {
			m.runtimePanic("runtime error: invalid memory address or nil pointer dereference")
		}
		return p
	case sdptr:
		if len(p.s[:cap(p.s)]) == 0 {
			m.runtimePanic("runtime error: invalid memory address or nil pointer dereference")
		}
		return &p.s[:1][0]
	case uptr:
		return m.derefPtr(p.p)
	case *symref:
		i := m.path.Concretise(p.idx, "symref-deref")
		return &p.arr[i]
	}
	panic(fmt.Sprintf("derefPtr: %T", p))
}

func (m *Machine) storeTo(addr value, v value) {
	if sr, ok := addr.(*symref); ok {
		nv := v.(*Term)
		tt := m.tt
		for i := range sr.arr {
			c := tt.Eq(sr.idx, tt.Const(sr.idx.W, uint64(i)))
			sr.arr[i] = tt.Ite(c, nv, sr.arr[i].(*Term))
		}
		return
	}
	store(m.derefPtr(addr), v)
}

// symref is a pointer to arr[idx] for a symbolic in-range idx over scalar elements.
type symref struct {
	arr []value
	idx *Term
}

func (m *Machine) loadFrom(addr value) value {
	if sr, ok := addr.(*symref); ok {
		return m.selectElem(sr.arr, sr.idx)
	}
	return copyVal(*m.derefPtr(addr))
}

// selectElem builds the ite chain arr[idx] for in-range idx.
func (m *Machine) selectElem(arr []value, idx *Term) *Term {
	tt := m.tt
	r := arr[len(arr)-1].(*Term)
	for i := len(arr) - 2; i >= 0; i-- {
		c := tt.Eq(idx, tt.Const(idx.W, uint64(i)))
		r = tt.Ite(c, arr[i].(*Term), r)
	}
	return r
}

// boundsCheck branches on 0 <= idx < n (idx of Go type it) and panics on the failing side.
func (m *Machine) boundsCheck(idx *Term, it types.Type, n int, what string) {
	tt := m.tt
	k := basicKind(it)
	var ok *Term
	if idx.IsConst() {
		v := idx.K
		if k.signed && idx.SVal() < 0 {
			ok = tt.Bool(false)
		} else {
			ok = tt.Bool(v < uint64(n))
		}
	} else {
		// unsigned comparison covers the negative case for signed types of the same width
		ok = tt.Cmp(OpULt, idx, tt.Const(idx.W, uint64(n)))
		if n > 0 && uint64(n) > mask(idx.W) {
			ok = tt.Bool(true)
		}
	}
	if !m.path.Branch(ok, "bounds") {
		m.runtimePanic(fmt.Sprintf("runtime error: index out of range [%s] with length %d (%s)", toStr(idx), n, what))
	}
}

func scalarElems(a []value) bool {
	if len(a) == 0 {
		return false
	}
	_, ok := a[0].(*Term)
	return ok
}

const maxSymSelect = 512

func (m *Machine) indexAddr(instr *ssa.IndexAddr, x value, idx *Term) value {
	var arr []value
	switch x := x.(type) {
	case []value:
		arr = x
	case *value:
		arr = (*m.derefPtr(x)).(array)
	default:
		arr = (*m.derefPtr(x)).(array)
	}
	m.boundsCheck(idx, instr.Index.Type(), len(arr), "indexaddr")
	if !idx.IsConst() {
		if scalarElems(arr) && len(arr) <= maxSymSelect {
			return &symref{arr: arr, idx: idx}
		}
		i := m.path.Concretise(idx, "index")
		return &arr[i]
	}
	return &arr[idx.K]
}

func (m *Machine) index(instr *ssa.Index, x value, idx *Term) value {
	switch x := x.(type) {
	case array:
		m.boundsCheck(idx, instr.Index.Type(), len(x), "index")
		if !idx.IsConst() {
			if scalarElems(x) && len(x) <= maxSymSelect {
				return m.selectElem(x, idx)
			}
			return copyVal(x[m.path.Concretise(idx, "index")])
		}
		return copyVal(x[idx.K])
	case string:
		m.boundsCheck(idx, instr.Index.Type(), len(x), "index")
		if !idx.IsConst() {
			if len(x) <= maxSymSelect {
				return m.selectElem(m.strBytes(x), idx)
			}
			return m.tt.Const(8, uint64(x[m.path.Concretise(idx, "index")]))
		}
		return m.tt.Const(8, uint64(x[idx.K]))
	case *symstr:
		m.boundsCheck(idx, instr.Index.Type(), len(x.b), "index")
		if !idx.IsConst() {
			if len(x.b) <= maxSymSelect {
				return m.selectElem(x.b, idx)
			}
			return x.b[m.path.Concretise(idx, "index")]
		}
		return x.b[idx.K]
	}
	panic(fmt.Sprintf("unexpected x type in Index: %T", x))
}

func (m *Machine) lookup(instr *ssa.Lookup, x, idx value) value {
	switch x := x.(type) {
	case *omap:
		var v value
		i := m.mapFind(x, idx)
		ok := i >= 0
		if ok {
			v = copyVal(x.vals[i])
		} else {
			v = m.zero(instr.X.Type().Underlying().(*types.Map).Elem())
		}
		if instr.CommaOk {
			return tuple{v, m.tt.Bool(ok)}
		}
		return v
	case string, *symstr:
		b := m.strBytes(x)
		it := idx.(*Term)
		m.boundsCheck(it, instr.Index.Type(), len(b), "lookup")
		if !it.IsConst() {
			return m.selectElem(b, it)
		}
		return b[it.K]
	}
	panic(fmt.Sprintf("unexpected x type in Lookup: %T", x))
}

const maxModelAlloc = 1 << 21 // elements

func (m *Machine) makeSlice(instr *ssa.MakeSlice, ln, cp *Term) value {
	tt := m.tt
	tElt := instr.Type().Underlying().(*types.Slice).Elem()
	esz := m.world.Sizes.Sizeof(tElt)
	m.allocGuard(cp, esz, "make")
	// len <= cap, both non-negative (as signed 64-bit after conversion by the compiler)
	ln64, cp64 := m.toInt64(ln, instr.Len.Type()), m.toInt64(cp, instr.Cap.Type())
	if !m.path.Branch(tt.Cmp(OpSLe, tt.Const(64, 0), ln64), "makeslice-len") {
		m.runtimePanic("runtime error: makeslice: len out of range")
	}
	if !m.path.Branch(tt.Cmp(OpSLe, ln64, cp64), "makeslice-cap") {
		m.runtimePanic("runtime error: makeslice: cap out of range")
	}
	// Concretise len first: when cap == len (the usual make([]T, n)) the second call is free.
	l := int64(m.path.Concretise(ln64, "makeslice-len"))
	c := int64(m.path.Concretise(cp64, "makeslice-cap"))
	if c > maxModelAlloc {
		m.path.end(fmt.Sprintf("bound: allocation of %d elements too large to model", c))
	}
	s := make([]value, c)
	z := m.zero(tElt)
	if _, ok := z.(*Term); ok {
		for i := range s {
			s[i] = z
		}
	} else {
		for i := range s {
			s[i] = m.zero(tElt)
		}
	}
	return s[:l]
}

func (m *Machine) toInt64(t *Term, ty types.Type) *Term {
	k := basicKind(ty)
	if t.W == 64 {
		return t
	}
	if k.signed {
		return m.tt.SExt(t, 64)
	}
	return m.tt.ZExt(t, 64)
}

// allocGuard accounts an allocation of n elements of esz bytes against the armed bound.
func (m *Machine) allocGuard(n *Term, esz int64, what string) {
	p := m.path
	if n.IsConst() {
		m.allocs += int64(n.K) * esz
	}
	if !p.allocArmed {
		return
	}
	tt := m.tt
	if n.IsConst() {
		p.allocConst += int64(n.K) * esz
		if p.allocSym == nil {
			if p.allocConst > p.allocBound {
				p.violation("alloc", "alloc-bound", fmt.Sprintf("%s: allocated %d bytes > bound %d", what, p.allocConst, p.allocBound), m)
				p.end("violation")
			}
			return
		}
	}
	// symbolic: n (as unsigned 64) * esz + const <= bound, without overflow: n <= (bound-const)/esz
	n64 := tt.ZExt(n, 64)
	if n.W == 64 {
		n64 = n
	}
	room := p.allocBound - p.allocConst
	if room < 0 {
		room = 0
	}
	if esz <= 0 {
		esz = 1
	}
	lim := uint64(room / esz)
	ok := tt.Cmp(OpULe, n64, tt.Const(64, lim))
	if !n.IsConst() {
		if !p.Branch(ok, "alloc-guard") {
			p.violation("alloc", "alloc-bound", fmt.Sprintf("%s: allocation size %s elements of %d bytes can exceed bound %d", what, toStr(n), esz, p.allocBound), m)
			p.end("violation")
		}
	}
}

func (m *Machine) slice(instr *ssa.Slice, x, lo, hi, max value) value {
	tt := m.tt
	var Len, Cap int
	var base []value
	isStr := false
	switch x := x.(type) {
	case string:
		Len, Cap = len(x), len(x)
		isStr = true
	case *symstr:
		Len, Cap = len(x.b), len(x.b)
		isStr = true
		base = x.b
	case []value:
		Len, Cap = len(x), cap(x)
		base = x
	case *value:
		a := (*m.derefPtr(x)).(array)
		Len, Cap = len(a), len(a)
		base = []value(a)
	default:
		panic(fmt.Sprintf("slice: unexpected X type: %T", x))
	}
	get := func(v value, ty ssa.Value, def int) *Term {
		if v == nil {
			return tt.Const(64, uint64(def))
		}
		return m.toInt64(v.(*Term), ty.Type())
	}
	l := get(lo, instr.Low, 0)
	h := get(hi, instr.High, Len)
	limit := Cap
	if isStr {
		limit = Len
	}
	mx := get(max, instr.Max, limit)
	// 0 <= l <= h <= mx <= cap
	ok := tt.BAnd(tt.Cmp(OpULe, l, h), tt.BAnd(tt.Cmp(OpULe, h, mx), tt.Cmp(OpULe, mx, tt.Const(64, uint64(limit)))))
	if !m.path.Branch(ok, "slice-bounds") {
		m.runtimePanic(fmt.Sprintf("runtime error: slice bounds out of range [%s:%s:%s] with capacity %d", toStr(l), toStr(h), toStr(mx), limit))
	}
	li := int(m.path.Concretise(l, "slice-lo"))
	hi2 := int(m.path.Concretise(h, "slice-hi"))
	mi := int(m.path.Concretise(mx, "slice-max"))
	switch x := x.(type) {
	case string:
		return x[li:hi2]
	case *symstr:
		return &symstr{b: base[li:hi2:hi2]}
	case []value:
		if x == nil {
			return []value(nil)
		}
		return base[li:hi2:mi]
	}
	return base[li:hi2:mi]
}

func (m *Machine) sliceToArrayPointer(tdst types.Type, x value) value {
	n := int(tdst.Underlying().(*types.Pointer).Elem().Underlying().(*types.Array).Len())
	s := x.([]value)
	if len(s) < n {
		m.runtimePanic(fmt.Sprintf("runtime error: cannot convert slice with length %d to array or pointer to array with length %d", len(s), n))
	}
	if s == nil {
		return (*value)(nil)
	}
	// A pointer to an array aliasing the slice's elements.
	cell := new(value)
	*cell = array(s[:n:n])
	return cell
}

func (m *Machine) rangeIter(x value) iter {
	switch x := x.(type) {
	case *omap:
		if x == nil {
			return &mapIter{}
		}
		return &mapIter{keys: slices.Clone(x.keys), vals: slices.Clone(x.vals)}
	case string, *symstr:
		return &stringIter{b: m.strBytes(x)}
	}
	panic(fmt.Sprintf("cannot range over %T", x))
}

func (m *Machine) typeAssert(instr *ssa.TypeAssert, itf iface) value {
	var v value
	err := ""
	if itf.t == nil {
		err = fmt.Sprintf("interface conversion: interface is nil, not %s", instr.AssertedType)
	} else if idst, ok := instr.AssertedType.Underlying().(*types.Interface); ok {
		v = itf
		if meth, _ := types.MissingMethod(itf.t, idst, true); meth != nil {
			err = fmt.Sprintf("interface conversion: %v is not %v: missing method %s", itf.t, idst, meth.Name())
		}
	} else if types.Identical(itf.t, instr.AssertedType) {
		v = itf.v
	} else {
		err = fmt.Sprintf("interface conversion: interface is %s, not %s", itf.t, instr.AssertedType)
	}
	if err != "" {
		if !instr.CommaOk {
			m.runtimePanic(err)
		}
		return tuple{m.zero(instr.AssertedType), m.tt.Bool(false)}
	}
	if instr.CommaOk {
		return tuple{v, m.tt.Bool(true)}
	}
	return v
}

// ---- calls ----

func (m *Machine) prepareCall(fr *frame, call *ssa.CallCommon) (fn value, args []value) {
	v := fr.get(call.Value)
	if call.Method == nil {
		fn = v
	} else {
		recv := v.(iface)
		if recv.t == nil {
			m.runtimePanic("runtime error: invalid memory address or nil pointer dereference (method call on nil interface: " + call.Method.Name() + ")")
		}
		if o, ok := recv.v.(opaque); ok {
			if ef := m.opaqueMethod(o, call.Method); ef != nil {
				fn = ef
				args = append(args, recv.v)
				for _, arg := range call.Args {
					args = append(args, fr.get(arg))
				}
				return
			}
		}
		f := m.lookupMethod(recv.t, call.Method)
		if f == nil {
			panic(fmt.Sprintf("method set for dynamic type %v does not contain %s", recv.t, call.Method))
		}
		fn = f
		args = append(args, recv.v)
	}
	for _, arg := range call.Args {
		args = append(args, fr.get(arg))
	}
	return
}

func (m *Machine) call(caller *frame, callpos token.Pos, fn value, args []value) value {
	switch fn := fn.(type) {
	case *ssa.Function:
		if fn == nil {
			m.runtimePanic("runtime error: invalid memory address or nil pointer dereference (call of nil func)")
		}
		return m.callSSA(caller, callpos, fn, args, nil)
	case *closure:
		return m.callSSA(caller, callpos, fn.Fn, args, fn.Env)
	case *ssa.Builtin:
		return m.callBuiltin(caller, fn, args)
	case *extFunc:
		return fn.f(m, caller, args)
	}
	panic(fmt.Sprintf("cannot call %T", fn))
}

const maxCallDepth = 400

func (m *Machine) callSSA(caller *frame, callpos token.Pos, fn *ssa.Function, args []value, env []value) value {
	if m.initDirect == fn {
		m.initDirect = nil
	} else if ext := m.world.intercept(fn); ext != nil {
		saved := m.cur
		r := ext(m, caller, fn, args)
		m.cur = saved
		return r
	}
	if fn.Blocks == nil {
		m.unsupported("no code for function " + fn.String())
	}
	if fn.TypeParams().Len() > 0 && len(fn.TypeArgs()) == 0 {
		m.unsupported("uninstantiated generic function " + fn.String())
	}
	fr := &frame{m: m, caller: caller, fn: fn}
	if m.fnSeen != nil && !m.fnSeen[fn] {
		m.fnSeen[fn] = true
	}
	m.depth++
	if m.depth > m.maxDep {
		m.maxDep = m.depth
	}
	if m.depth > maxCallDepth {
		m.path.end("bound: call depth")
	}
	saved := m.cur
	m.cur = fr
	defer func() { m.depth--; m.cur = saved }()

	fr.env = make(map[ssa.Value]value, 16)
	fr.block = fn.Blocks[0]
	fr.locals = make([]value, len(fn.Locals))
	for i, l := range fn.Locals {
		fr.locals[i] = m.zero(mustDeref(l.Type()))
		fr.env[l] = &fr.locals[i]
	}
	for i, p := range fn.Params {
		fr.env[p] = args[i]
	}
	for i, fv := range fn.FreeVars {
		fr.env[fv] = env[i]
	}
	for fr.block != nil {
		m.runFrame(fr)
	}
	return fr.result
}

func (m *Machine) runFrame(fr *frame) {
	defer func() {
		if fr.block == nil {
			return // normal return
		}
		r := recover()
		if _, ok := r.(targetPanic); !ok {
			switch r.(type) {
			case pathEnd, internalErr:
				panic(r)
			}
			m.cur = fr
			panic(internalErr{v: r, stack: m.stackString(), gostack: trimStack(string(debug.Stack()))})
		}
		fr.panicking = true
		fr.panic = r
		m.cur = fr
		fr.runDefers()
		fr.block = fr.fn.Recover
		if fr.block == nil {
			// recovered, function without named results: return zero values
			fr.result = m.zero(fr.fn.Signature.Results())
			if fr.fn.Signature.Results().Len() == 0 {
				fr.result = nil
			}
		}
	}()
	for {
		nonPhis := m.executePhis(fr)
		for _, instr := range nonPhis {
			if m.trace {
				m.traceInstr(fr, instr)
			}
			if m.visitInstr(fr, instr) == kReturn {
				return
			}
		}
	}
}

func (m *Machine) executePhis(fr *frame) []ssa.Instruction {
	firstNonPhi := -1
	for i, instr := range fr.block.Instrs {
		if _, ok := instr.(*ssa.Phi); !ok {
			firstNonPhi = i
			break
		}
	}
	nonPhis := fr.block.Instrs[firstNonPhi:]
	if firstNonPhi > 0 {
		phis := fr.block.Instrs[:firstNonPhi]
		predIndex := slices.Index(fr.block.Preds, fr.prevBlock)
		fr.phitemps = fr.phitemps[:0]
		for _, phi := range phis {
			phi := phi.(*ssa.Phi)
			fr.phitemps = append(fr.phitemps, fr.get(phi.Edges[predIndex]))
		}
		for i, phi := range phis {
			fr.env[phi.(*ssa.Phi)] = fr.phitemps[i]
		}
	}
	return nonPhis
}

func (m *Machine) traceInstr(fr *frame, instr ssa.Instruction) {
	if v, ok := instr.(ssa.Value); ok {
		fmt.Printf("  [%s] %s = %s\n", fr.fn.Name(), v.Name(), instr)
	} else {
		fmt.Printf("  [%s] %s\n", fr.fn.Name(), instr)
	}
}

func (m *Machine) doRecover(caller *frame) value {
	if caller != nil && !caller.panicking && caller.caller != nil && caller.caller.panicking {
		caller.caller.panicking = false
		p := caller.caller.panic
		caller.caller.panic = nil
		if tp, ok := p.(targetPanic); ok {
			if v, ok := tp.v.(iface); ok {
				return v
			}
			return iface{t: types.Typ[types.String], v: tp.msg}
		}
		panic(p)
	}
	return iface{}
}

func (m *Machine) panicText(v value) string {
	if i, ok := v.(iface); ok {
		if i.t == nil {
			return "nil"
		}
		if s, ok := concreteString(i.v); ok {
			return s
		}
		return fmt.Sprintf("(%s) %s", i.t, toStr(i.v))
	}
	return toStr(v)
}
