package exec

// Models of the environment: harness intrinsics (vsym*) and functions of the standard library
// and third-party packages that cannot be executed from their SSA form (assembly, runtime
// hooks, unsafe tricks, reflection) or whose real implementation is irrelevant to the claims.
// Every model here is part of the trusted base and is listed in the evidence files.

import (
	"encoding/hex"
	"fmt"
	"go/types"
	"strconv"
	"strings"

	"golang.org/x/tools/go/ssa"
)

var intrinsics map[string]interceptFn
var models map[string]interceptFn

type prefixModel struct {
	prefix string
	pick   func(fn *ssa.Function, name string) interceptFn
}

var prefixModels []prefixModel

func init() {
	intrinsics = map[string]interceptFn{
		"vsymU8":   func(m *Machine, _ *frame, _ *ssa.Function, a []value) value { return m.path.NewInput("u8", 8) },
		"vsymU16":  func(m *Machine, _ *frame, _ *ssa.Function, a []value) value { return m.path.NewInput("u16", 16) },
		"vsymU32":  func(m *Machine, _ *frame, _ *ssa.Function, a []value) value { return m.path.NewInput("u32", 32) },
		"vsymU64":  func(m *Machine, _ *frame, _ *ssa.Function, a []value) value { return m.path.NewInput("u64", 64) },
		"vsymI64":  func(m *Machine, _ *frame, _ *ssa.Function, a []value) value { return m.path.NewInput("u64", 64) },
		"vsymInt":  func(m *Machine, _ *frame, _ *ssa.Function, a []value) value { return m.path.NewInput("u64", 64) },
		"vsymBool": func(m *Machine, _ *frame, _ *ssa.Function, a []value) value { return m.path.NewInput("bool", 0) },
		"vsymBytes": func(m *Machine, _ *frame, _ *ssa.Function, a []value) value {
			n := int(m.path.Concretise(a[0].(*Term), "vsymBytes"))
			b := make([]value, n)
			for i := range b {
				b[i] = m.path.NewInput("u8", 8)
			}
			return b
		},
		"vsymChoose": func(m *Machine, _ *frame, _ *ssa.Function, a []value) value {
			n := m.path.Concretise(a[0].(*Term), "vsymChoose-n")
			if n <= 1 {
				// still consume an input so that native replay stays aligned
				m.path.NewInput("choose", 32)
				return m.tt.Const(64, 0)
			}
			v := m.path.NewInput("choose", 32)
			m.path.Assume(m.tt.Cmp(OpULt, v, m.tt.Const(32, n)))
			c := m.path.Concretise(v, "vsymChoose")
			return m.tt.Const(64, c)
		},
		"vsymAssume": func(m *Machine, _ *frame, _ *ssa.Function, a []value) value {
			m.path.Assume(a[0].(*Term))
			return nil
		},
		"vsymAssert": func(m *Machine, _ *frame, _ *ssa.Function, a []value) value {
			label, _ := concreteString(a[1])
			m.path.Assert(a[0].(*Term), label, m)
			return nil
		},
		"vsymReach": func(m *Machine, _ *frame, _ *ssa.Function, a []value) value {
			label, _ := concreteString(a[0])
			m.path.Reached[label] = true
			return nil
		},
		"vsymObserve": func(m *Machine, _ *frame, _ *ssa.Function, a []value) value {
			tag, _ := concreteString(a[0])
			m.path.Observed = append(m.path.Observed, tag+"="+m.observeStr(a[1]))
			return nil
		},
		"vsymAllocBound": func(m *Machine, _ *frame, _ *ssa.Function, a []value) value {
			n := int64(m.path.Concretise(a[0].(*Term), "allocbound"))
			m.path.allocArmed = n >= 0
			m.path.allocBound = n
			m.path.allocConst = 0
			m.path.allocSym = nil
			return nil
		},
		"vsymAliases": func(m *Machine, _ *frame, _ *ssa.Function, a []value) value {
			return m.tt.Bool(m.aliases(a[0], a[1]))
		},
		"vsymSymbolic": func(m *Machine, _ *frame, _ *ssa.Function, a []value) value {
			return m.tt.Bool(true)
		},
		"vsymAdvance": func(m *Machine, _ *frame, _ *ssa.Function, a []value) value {
			d := int64(m.path.Concretise(a[0].(*Term), "advance"))
			m.advanceClock(d)
			m.yield()
			return nil
		},
		"vsymQuiesce": func(m *Machine, _ *frame, _ *ssa.Function, a []value) value {
			m.yield()
			return nil
		},
		"vsymTier": func(m *Machine, _ *frame, _ *ssa.Function, a []value) value {
			return m.tt.Const(64, uint64(m.world.Tier))
		},
		"vsymRegion": func(m *Machine, _ *frame, _ *ssa.Function, a []value) value {
			name, _ := concreteString(a[0])
			if !contains(m.path.Regions, name) {
				m.path.Regions = append(m.path.Regions, name)
			}
			return nil
		},
		"vsymExpect": func(m *Machine, _ *frame, _ *ssa.Function, a []value) value {
			name, _ := concreteString(a[0])
			m.path.Expected = append(m.path.Expected, name)
			return nil
		},
		"vsymSolverTimeout": func(m *Machine, _ *frame, _ *ssa.Function, a []value) value {
			ms := int(m.path.Concretise(a[0].(*Term), "solver-timeout"))
			if m.path.sol != nil && ms > 0 {
				m.path.sol.SetTimeout(ms)
			}
			return nil
		},
		"vsymPreemptAt": func(m *Machine, _ *frame, _ *ssa.Function, a []value) value {
			m.preemptAt = int(int64(m.path.Concretise(a[0].(*Term), "preempt-at")))
			m.preemptSeen = 0
			m.preemptHit = false
			if m.preemptAt >= 0 {
				m.preemptEver = true
			}
			return nil
		},
		"vsymPreemptCovered": func(m *Machine, _ *frame, _ *ssa.Function, a []value) value {
			k := int(int64(m.path.Concretise(a[0].(*Term), "preempt-covered")))
			if m.preemptAt >= 0 && m.preemptSeen > k {
				m.path.end(fmt.Sprintf("bound: spawned goroutines executed %d call instructions, preemption points range over %d only", m.preemptSeen, k))
			}
			return nil
		},
		"vsymStepBound": func(m *Machine, _ *frame, _ *ssa.Function, a []value) value {
			n := int64(m.path.Concretise(a[0].(*Term), "step-bound"))
			if n <= 0 {
				m.stepBound = 0
			} else {
				m.stepBound = m.steps + n
			}
			return nil
		},
		"vsymFmtOpaque": func(m *Machine, _ *frame, _ *ssa.Function, a []value) value {
			m.fmtOpaque = a[0].(*Term).K != 0
			return nil
		},
		"vsymPoolReuse": func(m *Machine, _ *frame, _ *ssa.Function, a []value) value {
			m.poolReuse = a[0].(*Term).K != 0
			return nil
		},
		"vsymLiveGoroutines": func(m *Machine, _ *frame, _ *ssa.Function, a []value) value {
			n := 0
			for _, co := range m.sched.cos {
				if co.id != 0 && !co.done {
					n++
				}
			}
			return m.tt.Const(64, uint64(n))
		},
		"vsymNowNS": func(m *Machine, _ *frame, _ *ssa.Function, a []value) value {
			return m.tt.Const(64, uint64(m.clock-1_000_000_000))
		},
	}

	fpUnary := func(mode string) interceptFn {
		return func(m *Machine, _ *frame, _ *ssa.Function, a []value) value { return m.fpRound(mode, a[0].(*Term)) }
	}
	models = map[string]interceptFn{
		"math.Trunc":            fpUnary("RTZ"),
		"math.archTrunc":        fpUnary("RTZ"),
		"math.Floor":            fpUnary("RTN"),
		"math.archFloor":        fpUnary("RTN"),
		"math.Ceil":             fpUnary("RTP"),
		"math.archCeil":         fpUnary("RTP"),
		"math.Sqrt":             fpUnary("sqrt"),
		"math.sqrt":             fpUnary("sqrt"),
		"math.archSqrt":         fpUnary("sqrt"),
		"math.Float32bits":      identity,
		"math.Float32frombits":  identity,
		"math.Float64bits":      identity,
		"math.Float64frombits":  identity,
		"internal/abi.NoEscape": identity,
		"internal/abi.Escape":   identity,
		"runtime.KeepAlive":     noop,
		"runtime.Gosched": func(m *Machine, _ *frame, _ *ssa.Function, a []value) value {
			m.yield()
			return nil
		},
		"runtime.SetFinalizer": noop,
		"os.Getenv":            func(m *Machine, _ *frame, _ *ssa.Function, a []value) value { return "" },
		"internal/bytealg.IndexByte": func(m *Machine, _ *frame, _ *ssa.Function, a []value) value {
			return m.indexByte(a[0].([]value), a[1].(*Term))
		},
		"internal/bytealg.IndexByteString": func(m *Machine, _ *frame, _ *ssa.Function, a []value) value {
			return m.indexByte(m.strBytes(a[0]), a[1].(*Term))
		},
		"internal/bytealg.Equal": func(m *Machine, _ *frame, _ *ssa.Function, a []value) value {
			return m.bytesEqual(a[0].([]value), a[1].([]value))
		},
		"internal/bytealg.IndexString": func(m *Machine, _ *frame, _ *ssa.Function, a []value) value {
			return m.indexSub(m.strBytes(a[0]), m.strBytes(a[1]))
		},
		"internal/bytealg.Index": func(m *Machine, _ *frame, _ *ssa.Function, a []value) value {
			return m.indexSub(a[0].([]value), a[1].([]value))
		},
		"internal/bytealg.Count": func(m *Machine, _ *frame, _ *ssa.Function, a []value) value {
			return m.countByte(a[0].([]value), a[1].(*Term))
		},
		"internal/bytealg.CountString": func(m *Machine, _ *frame, _ *ssa.Function, a []value) value {
			return m.countByte(m.strBytes(a[0]), a[1].(*Term))
		},
		"internal/bytealg.MakeNoZero": func(m *Machine, _ *frame, _ *ssa.Function, a []value) value {
			n := int(m.path.Concretise(a[0].(*Term), "MakeNoZero"))
			m.allocGuard(m.tt.Const(64, uint64(n)), 1, "MakeNoZero")
			if n > maxModelAlloc {
				m.path.end("bound: allocation too large to model")
			}
			s := make([]value, n)
			z := m.tt.Const(8, 0)
			for i := range s {
				s[i] = z
			}
			return s
		},
		"internal/reflectlite.TypeOf": func(m *Machine, _ *frame, _ *ssa.Function, a []value) value {
			return iface{t: types.Typ[types.UnsafePointer], v: opaque{kind: "rtype"}}
		},
		"internal/stringslite.Clone": func(m *Machine, _ *frame, _ *ssa.Function, a []value) value {
			if s, ok := a[0].(string); ok {
				return s
			}
			b := m.strBytes(a[0])
			nb := make([]value, len(b))
			copy(nb, b)
			return m.mkStr(nb)
		},
		"internal/stringslite.Index":   nil,
		"errors.Is":                    modelErrorsIs,
		"errors.As":                    modelErrorsAs,
		"fmt.Errorf":                   modelErrorf,
		"fmt.Sprintf":                  modelSprintf,
		"fmt.Sprint":                   modelSprint,
		"fmt.Sprintln":                 modelSprint,
		"strings.(*Builder).copyCheck": nil,
	}
	delete(models, "internal/stringslite.Index")
	delete(models, "strings.(*Builder).copyCheck")
	models["(*strings.Builder).copyCheck"] = noop
	models["(*strings.Builder).Grow"] = modelBuilderGrow
	registerSyncModels()
	registerTimeModels()
	registerFmtModels()
	// package-level logging of the module under test: diagnostics only, empty bodies
	prefixModels = append(prefixModels, prefixModel{prefix: "github.com/arloliu/go-secs/v2/logger.", pick: func(fn *ssa.Function, name string) interceptFn {
		switch fn.Name() {
		case "Debug", "Info", "Warn", "Error", "Debugf", "Infof", "Warnf", "Errorf":
			if fn.Signature.Recv() == nil {
				return noop
			}
		}
		return nil
	}})
}

func identity(m *Machine, _ *frame, _ *ssa.Function, a []value) value { return a[0] }
func noop(m *Machine, _ *frame, _ *ssa.Function, a []value) value     { return nil }

func (m *Machine) opaqueMethod(o opaque, meth *types.Func) *extFunc {
	if o.kind == "rtype" {
		// reflect-lite type descriptors are inert: every method returns the descriptor itself
		return &extFunc{name: "rtype." + meth.Name(), f: func(m *Machine, _ *frame, a []value) value {
			return iface{t: types.Typ[types.UnsafePointer], v: a[0]}
		}}
	}
	return nil
}

func (m *Machine) observeStr(v value) string {
	i, ok := v.(iface)
	if !ok {
		return toStr(v)
	}
	if i.t == nil {
		return "nil"
	}
	switch x := i.v.(type) {
	case *Term:
		if !x.IsConst() {
			return "?"
		}
		k := basicKind(i.t)
		switch {
		case k.isBool:
			if x.K != 0 {
				return "true"
			}
			return "false"
		case k.float:
			return "<float>"
		case k.signed:
			return strconv.FormatInt(x.SVal(), 10)
		default:
			return strconv.FormatUint(x.K, 10)
		}
	case string, *symstr:
		if _, isBasic := i.t.Underlying().(*types.Basic); isBasic {
			s, ok := concreteString(x)
			if !ok {
				return "?"
			}
			return "s:" + hex.EncodeToString([]byte(s))
		}
	case []value:
		if st, ok := i.t.Underlying().(*types.Slice); ok {
			if b, ok := st.Elem().Underlying().(*types.Basic); ok && b.Kind() == types.Uint8 {
				buf := make([]byte, len(x))
				for j, e := range x {
					t := e.(*Term)
					if !t.IsConst() {
						return "?"
					}
					buf[j] = byte(t.K)
				}
				return "b:" + hex.EncodeToString(buf)
			}
		}
	}
	if m.errMethod(i, "Error", 1) != nil {
		return "error"
	}
	return "<" + i.t.String() + ">"
}

// aliases reports whether two values (slices, strings, pointers, possibly boxed in interfaces)
// share any storage cell.
func (m *Machine) aliases(a, b value) bool {
	ca, cb := m.cellsOf(a), m.cellsOf(b)
	if len(ca) == 0 || len(cb) == 0 {
		return false
	}
	set := make(map[*value]bool, len(ca))
	for _, c := range ca {
		set[c] = true
	}
	for _, c := range cb {
		if set[c] {
			return true
		}
	}
	return false
}

func (m *Machine) cellsOf(v value) []*value {
	switch v := v.(type) {
	case iface:
		if v.t == nil {
			return nil
		}
		return m.cellsOf(v.v)
	case []value:
		full := v[:cap(v)]
		out := make([]*value, len(full))
		for i := range full {
			out[i] = &full[i]
		}
		return out
	case *symstr:
		out := make([]*value, len(v.b))
		for i := range v.b {
			out[i] = &v.b[i]
		}
		return out
	case *value:
		if v == nil {
			return nil
		}
		return []*value{v}
	case sdptr:
		return m.cellsOf(v.s)
	}
	return nil
}

func (m *Machine) indexByte(b []value, c *Term) value {
	tt := m.tt
	for i, x := range b {
		if m.path.Branch(tt.Eq(x.(*Term), c), "IndexByte") {
			return tt.Const(64, uint64(i))
		}
	}
	return tt.Const(64, ^uint64(0))
}

// indexSub: first index of sub in s (-1 if absent), branching on each candidate position.
func (m *Machine) indexSub(s, sub []value) value {
	tt := m.tt
	for i := 0; i+len(sub) <= len(s); i++ {
		if m.path.Branch(m.bytesEqual(s[i:i+len(sub)], sub).(*Term), "IndexString") {
			return tt.Const(64, uint64(i))
		}
	}
	return tt.Const(64, ^uint64(0))
}

func (m *Machine) bytesEqual(a, b []value) value {
	tt := m.tt
	if len(a) != len(b) {
		return tt.Bool(false)
	}
	r := tt.Bool(true)
	for i := range a {
		r = tt.BAnd(r, tt.Eq(a[i].(*Term), b[i].(*Term)))
	}
	return r
}

func (m *Machine) countByte(b []value, c *Term) value {
	tt := m.tt
	n := tt.Const(64, 0)
	for _, x := range b {
		n = tt.Bin(OpAdd, n, tt.Ite(tt.Eq(x.(*Term), c), tt.Const(64, 1), tt.Const(64, 0)))
	}
	return n
}

// ---- errors ----

func (m *Machine) errMethod(e iface, name string, nres int) *ssa.Function {
	if e.t == nil {
		return nil
	}
	ms := m.prog.MethodSets.MethodSet(e.t)
	for i := 0; i < ms.Len(); i++ {
		sel := ms.At(i)
		if sel.Obj().Name() == name {
			return m.prog.MethodValue(sel)
		}
	}
	return nil
}

func (m *Machine) unwrapAll(caller *frame, e iface) []iface {
	if f := m.errMethod(e, "Unwrap", 1); f != nil {
		sig := f.Signature
		if sig.Params().Len() == 0 && sig.Results().Len() == 1 {
			r := m.call(caller, 0, f, []value{e.v})
			switch r := r.(type) {
			case iface:
				if r.t == nil {
					return nil
				}
				return []iface{r}
			case []value:
				var out []iface
				for _, x := range r {
					out = append(out, x.(iface))
				}
				return out
			}
		}
	}
	return nil
}

func modelErrorsIs(m *Machine, caller *frame, _ *ssa.Function, a []value) value {
	err, target := a[0].(iface), a[1].(iface)
	return m.tt.Bool(m.errorsIs(caller, err, target))
}

func (m *Machine) errorsIs(caller *frame, err, target iface) bool {
	if err.t == nil || target.t == nil {
		return err.t == nil && target.t == nil
	}
	comparable := types.Comparable(target.t)
	var walk func(e iface) bool
	walk = func(e iface) bool {
		if e.t == nil {
			return false
		}
		if comparable && sameType(e.t, target.t) {
			if m.path.Branch(m.equals(e.t, e.v, target.v), "errors.Is") {
				return true
			}
		}
		if f := m.errMethod(e, "Is", 1); f != nil && f.Signature.Params().Len() == 1 {
			r := m.call(caller, 0, f, []value{e.v, target})
			if t, ok := r.(*Term); ok && m.path.Branch(t, "errors.Is-method") {
				return true
			}
		}
		for _, u := range m.unwrapAll(caller, e) {
			if walk(u) {
				return true
			}
		}
		return false
	}
	return walk(err)
}

func modelErrorsAs(m *Machine, caller *frame, _ *ssa.Function, a []value) value {
	err, target := a[0].(iface), a[1].(iface)
	if target.t == nil {
		m.runtimePanic("errors: target cannot be nil")
	}
	pt, ok := target.t.Underlying().(*types.Pointer)
	if !ok {
		m.runtimePanic("errors: target must be a non-nil pointer")
	}
	tt := pt.Elem()
	cell := m.derefPtr(target.v)
	var walk func(e iface) bool
	walk = func(e iface) bool {
		if e.t == nil {
			return false
		}
		if it, ok := tt.Underlying().(*types.Interface); ok {
			if meth, _ := types.MissingMethod(e.t, it, true); meth == nil {
				*cell = e
				return true
			}
		} else if types.Identical(e.t, tt) {
			store(cell, e.v)
			return true
		}
		if f := m.errMethod(e, "As", 1); f != nil && f.Signature.Params().Len() == 1 {
			r := m.call(caller, 0, f, []value{e.v, target})
			if t, ok := r.(*Term); ok && m.path.Branch(t, "errors.As-method") {
				return true
			}
		}
		for _, u := range m.unwrapAll(caller, e) {
			if walk(u) {
				return true
			}
		}
		return false
	}
	return m.tt.Bool(walk(err))
}

// newError builds a real *errors.errorString value.
func (m *Machine) newError(msg value) iface {
	pkg := m.prog.ImportedPackage("errors")
	if pkg == nil {
		m.unsupported("package errors not loaded")
	}
	t := pkg.Type("errorString").Type()
	cell := new(value)
	*cell = structure{msg}
	return iface{t: types.NewPointer(t), v: cell}
}

func modelErrorf(m *Machine, caller *frame, _ *ssa.Function, a []value) value {
	format, _ := concreteString(a[0])
	args := a[1].([]value)
	msg := m.miniFormat(caller, format, args)
	// collect %w operands
	var wrapped []iface
	ai := 0
	for i := 0; i < len(format); i++ {
		if format[i] != '%' {
			continue
		}
		i++
		for i < len(format) && strings.IndexByte("+-# 0123456789.*[]", format[i]) >= 0 {
			i++
		}
		if i >= len(format) {
			break
		}
		if format[i] == '%' {
			continue
		}
		if format[i] == 'w' && ai < len(args) {
			if e, ok := args[ai].(iface); ok && e.t != nil {
				wrapped = append(wrapped, e)
			}
		}
		ai++
	}
	fpkg := m.prog.ImportedPackage("fmt")
	switch {
	case len(wrapped) == 0 || fpkg == nil:
		return m.newError(msg)
	case len(wrapped) == 1:
		t := fpkg.Type("wrapError").Type()
		cell := new(value)
		*cell = structure{msg, wrapped[0]}
		return iface{t: types.NewPointer(t), v: cell}
	default:
		t := fpkg.Type("wrapErrors").Type()
		cell := new(value)
		errs := make([]value, len(wrapped))
		for i, e := range wrapped {
			errs[i] = e
		}
		*cell = structure{msg, errs}
		return iface{t: types.NewPointer(t), v: cell}
	}
}

func modelSprintf(m *Machine, caller *frame, _ *ssa.Function, a []value) value {
	format, _ := concreteString(a[0])
	return m.mkStr(m.fmtBytes(caller, format, a[1].([]value)))
}

func modelSprint(m *Machine, caller *frame, _ *ssa.Function, a []value) value {
	args := a[0].([]value)
	var parts []string
	for _, x := range args {
		parts = append(parts, m.fmtArg(caller, 'v', x))
	}
	return strings.Join(parts, " ")
}

// miniFormat is a small fmt.Sprintf for diagnostics text (error messages). Concrete operands
// are rendered faithfully for the common verbs; symbolic operands render as "?". Where the
// exact text of formatted numbers matters (the SML encoders) dedicated models are used instead.
func (m *Machine) miniFormat(caller *frame, format string, args []value) value {
	var sb strings.Builder
	ai := 0
	for i := 0; i < len(format); i++ {
		c := format[i]
		if c != '%' {
			sb.WriteByte(c)
			continue
		}
		i++
		spec := "%"
		for i < len(format) && strings.IndexByte("+-# 0123456789.", format[i]) >= 0 {
			spec += string(format[i])
			i++
		}
		if i >= len(format) {
			break
		}
		verb := format[i]
		if verb == '%' {
			sb.WriteByte('%')
			continue
		}
		if ai >= len(args) {
			sb.WriteString("%!" + string(verb) + "(MISSING)")
			continue
		}
		sb.WriteString(m.fmtArgSpec(caller, spec, verb, args[ai]))
		ai++
	}
	return sb.String()
}

func (m *Machine) fmtArg(caller *frame, verb byte, x value) string {
	return m.fmtArgSpec(caller, "%", verb, x)
}

func (m *Machine) fmtArgSpec(caller *frame, spec string, verb byte, x value) string {
	i, ok := x.(iface)
	if !ok {
		return toStr(x)
	}
	if i.t == nil {
		return "<nil>"
	}
	if verb == 'T' {
		return i.t.String()
	}
	// error / Stringer
	if verb == 'v' || verb == 's' || verb == 'w' || verb == 'q' {
		if f := m.errMethod(i, "Error", 1); f != nil && f.Signature.Params().Len() == 0 {
			r := m.call(caller, 0, f, []value{i.v})
			if s, ok := concreteString(r); ok {
				return s
			}
			return "?"
		}
		if f := m.errMethod(i, "String", 1); f != nil && f.Signature.Params().Len() == 0 && f.Signature.Results().Len() == 1 {
			r := m.call(caller, 0, f, []value{i.v})
			if s, ok := concreteString(r); ok {
				return s
			}
			return "?"
		}
	}
	switch v := i.v.(type) {
	case *Term:
		if !v.IsConst() {
			return "?"
		}
		k := basicKind(i.t)
		switch {
		case k.isBool:
			return fmt.Sprintf(spec+string(verb), v.K != 0)
		case k.float:
			return fmt.Sprintf(spec+string(verb), bitsToF(v.K, v.W))
		case k.signed:
			return fmt.Sprintf(spec+string(verb), v.SVal())
		default:
			return fmt.Sprintf(spec+string(verb), v.K)
		}
	case string:
		return fmt.Sprintf(spec+string(verb), v)
	case *symstr:
		if s, ok := concreteString(v); ok {
			return fmt.Sprintf(spec+string(verb), s)
		}
		return "?"
	case []value:
		var parts []string
		for _, e := range v {
			parts = append(parts, toStr(e))
		}
		return "[" + strings.Join(parts, " ") + "]"
	}
	return toStr(i.v)
}

func modelBuilderGrow(m *Machine, caller *frame, fn *ssa.Function, a []value) value {
	// (*strings.Builder).Grow(n): account the allocation, then run the real code.
	n := a[1].(*Term)
	tt := m.tt
	if !m.path.Branch(tt.Cmp(OpSLe, tt.Const(64, 0), n), "Builder.Grow-neg") {
		panic(targetPanic{v: iface{t: types.Typ[types.String], v: "strings.Builder.Grow: negative count"}, msg: "strings.Builder.Grow: negative count", stack: m.stackString()})
	}
	m.allocGuard(n, 1, "strings.Builder.Grow")
	cnt := int(m.path.Concretise(n, "Builder.Grow"))
	if cnt > maxModelAlloc {
		m.path.end("bound: allocation too large to model")
	}
	// b.buf: field 1 of Builder{addr *Builder; buf []byte}
	b := m.derefPtr(a[0])
	st := (*b).(structure)
	buf := st[1].([]value)
	if cap(buf)-len(buf) < cnt {
		nb := make([]value, len(buf), 2*cap(buf)+cnt)
		copy(nb, buf)
		z := m.tt.Const(8, 0)
		full := nb[:cap(nb)]
		for i := len(buf); i < len(full); i++ {
			full[i] = z
		}
		st[1] = nb
	}
	return nil
}
