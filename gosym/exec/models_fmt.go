package exec

// Symbolic-capable text formatting (fmt.Sprintf / Errorf / Fprintf) and host-evaluated strconv
// float conversions. Concrete operands are rendered by the host's real fmt; symbolic operands are
// rendered through the REAL strconv code of the program under analysis (FormatInt/FormatUint/
// Quote executed from SSA), or nibble table lookups for %x/%X, so that the text is a function of
// the symbolic value and two renderers can be compared byte for byte.

import (
	"fmt"
	"go/types"
	"math"
	"strconv"
	"strings"

	"golang.org/x/tools/go/ssa"
)

// fmtBytes formats like fmt.Sprintf and returns the result as bytes (possibly symbolic).
func (m *Machine) fmtBytes(caller *frame, format string, args []value) []value {
	var out []value
	lit := func(s string) {
		for i := 0; i < len(s); i++ {
			out = append(out, m.tt.Const(8, uint64(s[i])))
		}
	}
	ai := 0
	for i := 0; i < len(format); i++ {
		c := format[i]
		if c != '%' {
			out = append(out, m.tt.Const(8, uint64(c)))
			continue
		}
		i++
		spec := "%"
		for i < len(format) && strings.IndexByte("+-# 0123456789.", format[i]) >= 0 {
			spec += string(format[i])
			i++
		}
		if i >= len(format) {
			break
		}
		verb := format[i]
		if verb == '%' {
			out = append(out, m.tt.Const(8, '%'))
			continue
		}
		if ai >= len(args) {
			lit("%!" + string(verb) + "(MISSING)")
			continue
		}
		out = append(out, m.fmtOne(caller, spec, verb, args[ai])...)
		ai++
	}
	return out
}

func (m *Machine) constBytes(s string) []value {
	b := make([]value, len(s))
	for i := 0; i < len(s); i++ {
		b[i] = m.tt.Const(8, uint64(s[i]))
	}
	return b
}

// callStd calls a package-level function of a std package of the analysed program.
func (m *Machine) callStd(caller *frame, pkg, name string, args ...value) (value, bool) {
	p := m.prog.ImportedPackage(pkg)
	if p == nil {
		return nil, false
	}
	f := p.Func(name)
	if f == nil {
		return nil, false
	}
	return m.callSSA(caller, 0, f, args, nil), true
}

func (m *Machine) fmtOne(caller *frame, spec string, verb byte, x value) []value {
	i, ok := x.(iface)
	if !ok || i.t == nil {
		return m.constBytes(m.fmtArgSpec(caller, spec, verb, x))
	}
	if m.fmtOpaque {
		// stub (vsymFmtOpaque): message text is not the subject; a symbolic operand renders as "?",
		// and so does a strconv error (its text quotes the offending, possibly symbolic, input)
		if pt, ok := i.t.(*types.Pointer); ok {
			if n, ok := pt.Elem().(*types.Named); ok && n.Obj().Pkg() != nil && n.Obj().Pkg().Path() == "strconv" {
				return m.constBytes("?")
			}
		}
		switch v := i.v.(type) {
		case *Term:
			if !v.IsConst() {
				return m.constBytes("?")
			}
		case *symstr:
			if _, ok := concreteString(v); !ok {
				return m.constBytes("?")
			}
		}
	}
	switch v := i.v.(type) {
	case *Term:
		if v.IsConst() {
			break
		}
		k := basicKind(i.t)
		if k.isBool || k.float {
			break
		}
		switch verb {
		case 'd', 'v':
			if spec != "%" {
				break
			}
			var r value
			var ok bool
			if k.signed {
				r, ok = m.callStd(caller, "strconv", "FormatInt", m.tt.SExt(v, 64), m.tt.Const(64, 10))
			} else {
				r, ok = m.callStd(caller, "strconv", "FormatUint", m.tt.ZExt(v, 64), m.tt.Const(64, 10))
			}
			if ok {
				return m.strBytes(r)
			}
		case 'x', 'X':
			// zero-padded hex of an unsigned value of width w: exactly w/4 digits when the padding
			// asks for at least that many ("%02X" of a byte); other shapes are not modelled
			digits := int(v.W) / 4
			if !k.signed && (spec == fmt.Sprintf("%%0%d", digits)) {
				tab := "0123456789abcdef"
				if verb == 'X' {
					tab = "0123456789ABCDEF"
				}
				tb := m.constBytes(tab)
				var out []value
				for d := digits - 1; d >= 0; d-- {
					nib := m.tt.ZExt(m.tt.Extract(v, uint8(4*d+3), uint8(4*d)), 8)
					out = append(out, m.selectElem(tb, nib))
				}
				return out
			}
		case 'c':
			if m.path.Branch(m.tt.Cmp(OpULt, v, m.tt.Const(v.W, 0x80)), "fmt-%c-ascii") {
				return []value{m.tt.Extract(v, 7, 0)}
			}
			r := rune(m.path.Concretise(v, "fmt-%c"))
			return m.constBytes(string(r))
		}
		return m.constBytes("?")
	case *symstr:
		if _, isBasic := i.t.Underlying().(*types.Basic); !isBasic {
			break
		}
		switch verb {
		case 's', 'v':
			if spec == "%" {
				return v.b
			}
		case 'q':
			if spec == "%" {
				if r, ok := m.callStd(caller, "strconv", "Quote", v); ok {
					return m.strBytes(r)
				}
			}
		}
		if s, ok := concreteString(v); ok {
			return m.constBytes(fmt.Sprintf(spec+string(verb), s))
		}
		return m.constBytes("?")
	}
	return m.constBytes(m.fmtArgSpec(caller, spec, verb, x))
}

func modelFprintf(m *Machine, caller *frame, _ *ssa.Function, a []value) value {
	w := a[0].(iface)
	format, _ := concreteString(a[1])
	b := m.fmtBytes(caller, format, a[2].([]value))
	if w.t == nil {
		m.runtimePanic("runtime error: invalid memory address or nil pointer dereference (Fprintf to nil Writer)")
	}
	f := m.errMethod(w, "Write", 1)
	if f == nil {
		m.unsupported("fmt.Fprintf: writer has no Write method")
	}
	buf := make([]value, len(b))
	copy(buf, b)
	return m.call(caller, 0, f, []value{w.v, buf})
}

// ---- strconv float conversions: evaluated by the host for concrete arguments ----

func floatArg(t *Term) (float64, bool) {
	if !t.IsConst() {
		return 0, false
	}
	return bitsToF(t.K, t.W), true
}

func registerFmtModels() {
	models["fmt.Fprintf"] = modelFprintf
	models["strconv.FormatFloat"] = func(m *Machine, _ *frame, _ *ssa.Function, a []value) value {
		f, ok1 := floatArg(a[0].(*Term))
		c, p, bs := a[1].(*Term), a[2].(*Term), a[3].(*Term)
		if !ok1 || !c.IsConst() || !p.IsConst() || !bs.IsConst() {
			m.unsupported("strconv.FormatFloat with a symbolic argument (float text is outside every claim)")
		}
		return strconv.FormatFloat(f, byte(c.K), int(p.SVal()), int(bs.SVal()))
	}
	models["strconv.AppendFloat"] = func(m *Machine, _ *frame, _ *ssa.Function, a []value) value {
		f, ok1 := floatArg(a[1].(*Term))
		c, p, bs := a[2].(*Term), a[3].(*Term), a[4].(*Term)
		if !ok1 || !c.IsConst() || !p.IsConst() || !bs.IsConst() {
			m.unsupported("strconv.AppendFloat with a symbolic argument (float text is outside every claim)")
		}
		s := strconv.FormatFloat(f, byte(c.K), int(p.SVal()), int(bs.SVal()))
		return m.appendVals(a[0].([]value), m.constBytes(s), nil)
	}
	models["strconv.ParseFloat"] = func(m *Machine, caller *frame, fn *ssa.Function, a []value) value {
		s, ok := concreteString(a[0])
		bs := a[1].(*Term)
		if !ok || !bs.IsConst() {
			// symbolic float text: the real parser is not encodable; the harnesses keep float tokens
			// concrete, so reaching this means an unexpected path
			m.unsupported("strconv.ParseFloat on symbolic text (float text is outside every claim)")
		}
		f, err := strconv.ParseFloat(s, int(bs.SVal()))
		var ev value = iface{}
		if err != nil {
			// build a real *strconv.NumError{Func, Num, Err}
			pkg := m.prog.ImportedPackage("strconv")
			ne := err.(*strconv.NumError)
			var inner value = iface{}
			switch ne.Err {
			case strconv.ErrRange:
				inner = *m.globalCell(pkg.Var("ErrRange"))
				m.ensureInit(pkg)
				inner = *m.globalCell(pkg.Var("ErrRange"))
			case strconv.ErrSyntax:
				m.ensureInit(pkg)
				inner = *m.globalCell(pkg.Var("ErrSyntax"))
			}
			cell := new(value)
			*cell = structure{"ParseFloat", s, inner}
			ev = iface{t: types.NewPointer(pkg.Type("NumError").Type()), v: cell}
		}
		bits := math.Float64bits(f)
		return tuple{m.tt.Const(64, bits), ev}
	}
}
