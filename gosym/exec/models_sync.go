package exec

import (
	"go/types"
	"strings"

	"golang.org/x/tools/go/ssa"
)

type mutexState struct {
	locked  bool
	readers int
}

func (m *Machine) mutexOf(p value) *mutexState {
	c := m.derefPtr(p)
	if s, ok := m.models[c]; ok {
		return s.(*mutexState)
	}
	s := &mutexState{}
	m.models[c] = s
	return s
}

type wgState struct{ n int64 }

func (m *Machine) wgOf(p value) *wgState {
	c := m.derefPtr(p)
	if s, ok := m.models[c]; ok {
		return s.(*wgState)
	}
	s := &wgState{}
	m.models[c] = s
	return s
}

func fieldIndex(t types.Type, name string) int {
	st, ok := t.Underlying().(*types.Struct)
	if !ok {
		return -1
	}
	for i := 0; i < st.NumFields(); i++ {
		if st.Field(i).Name() == name {
			return i
		}
	}
	return -1
}

func registerSyncModels() {
	models["(*sync.Mutex).Lock"] = func(m *Machine, _ *frame, _ *ssa.Function, a []value) value {
		s := m.mutexOf(a[0])
		m.block(func() bool { return !s.locked && s.readers == 0 }, "Mutex.Lock")
		s.locked = true
		return nil
	}
	models["(*sync.Mutex).TryLock"] = func(m *Machine, _ *frame, _ *ssa.Function, a []value) value {
		s := m.mutexOf(a[0])
		if s.locked {
			return m.tt.Bool(false)
		}
		s.locked = true
		return m.tt.Bool(true)
	}
	models["(*sync.Mutex).Unlock"] = func(m *Machine, _ *frame, _ *ssa.Function, a []value) value {
		s := m.mutexOf(a[0])
		if !s.locked {
			m.runtimePanic("fatal error: sync: unlock of unlocked mutex")
		}
		s.locked = false
		return nil
	}
	models["(*sync.RWMutex).Lock"] = models["(*sync.Mutex).Lock"]
	models["(*sync.RWMutex).TryLock"] = func(m *Machine, _ *frame, _ *ssa.Function, a []value) value {
		s := m.mutexOf(a[0])
		if s.locked || s.readers > 0 {
			return m.tt.Bool(false)
		}
		s.locked = true
		return m.tt.Bool(true)
	}
	models["(*sync.RWMutex).Unlock"] = models["(*sync.Mutex).Unlock"]
	models["(*sync.RWMutex).RLock"] = func(m *Machine, _ *frame, _ *ssa.Function, a []value) value {
		s := m.mutexOf(a[0])
		m.block(func() bool { return !s.locked }, "RWMutex.RLock")
		s.readers++
		return nil
	}
	models["(*sync.RWMutex).RUnlock"] = func(m *Machine, _ *frame, _ *ssa.Function, a []value) value {
		s := m.mutexOf(a[0])
		if s.readers <= 0 {
			m.runtimePanic("fatal error: sync: RUnlock of unlocked RWMutex")
		}
		s.readers--
		return nil
	}
	models["(*sync.WaitGroup).Add"] = func(m *Machine, _ *frame, _ *ssa.Function, a []value) value {
		s := m.wgOf(a[0])
		d := a[1].(*Term)
		s.n += int64(m.path.Concretise(d, "wg.Add"))
		if s.n < 0 {
			panic(targetPanic{v: iface{t: types.Typ[types.String], v: "sync: negative WaitGroup counter"}, msg: "sync: negative WaitGroup counter", stack: m.stackString()})
		}
		return nil
	}
	models["(*sync.WaitGroup).Done"] = func(m *Machine, _ *frame, _ *ssa.Function, a []value) value {
		s := m.wgOf(a[0])
		s.n--
		if s.n < 0 {
			panic(targetPanic{v: iface{t: types.Typ[types.String], v: "sync: negative WaitGroup counter"}, msg: "sync: negative WaitGroup counter", stack: m.stackString()})
		}
		return nil
	}
	models["(*sync.WaitGroup).Wait"] = func(m *Machine, _ *frame, _ *ssa.Function, a []value) value {
		s := m.wgOf(a[0])
		m.block(func() bool { return s.n == 0 }, "WaitGroup.Wait")
		return nil
	}
	models["(*sync.Pool).Get"] = func(m *Machine, caller *frame, fn *ssa.Function, a []value) value {
		c := m.derefPtr(a[0])
		if m.poolReuse {
			if items := m.pools[c]; len(items) > 0 {
				v := items[len(items)-1]
				m.pools[c] = items[:len(items)-1]
				return v
			}
		}
		st := (*c).(structure)
		pt := mustDeref(fn.Signature.Recv().Type())
		if i := fieldIndex(pt, "New"); i >= 0 {
			if f := st[i]; !isNilFunc(f) {
				return m.call(caller, 0, f, nil)
			}
		}
		return iface{}
	}
	models["(*sync.Pool).Put"] = func(m *Machine, _ *frame, _ *ssa.Function, a []value) value {
		if m.poolReuse {
			c := m.derefPtr(a[0])
			m.pools[c] = append(m.pools[c], a[1])
		}
		return nil
	}
	models["(*sync/atomic.Value).Load"] = func(m *Machine, _ *frame, _ *ssa.Function, a []value) value {
		c := m.derefPtr(a[0])
		return (*c).(structure)[0]
	}
	models["(*sync/atomic.Value).Store"] = func(m *Machine, _ *frame, _ *ssa.Function, a []value) value {
		c := m.derefPtr(a[0])
		v := a[1].(iface)
		if v.t == nil {
			m.runtimePanic("sync/atomic: store of nil value into Value")
		}
		(*c).(structure)[0] = v
		return nil
	}
	models["(*sync/atomic.Value).Swap"] = func(m *Machine, _ *frame, _ *ssa.Function, a []value) value {
		c := m.derefPtr(a[0])
		old := (*c).(structure)[0]
		(*c).(structure)[0] = a[1]
		return old
	}
	models["(*sync/atomic.Value).CompareAndSwap"] = func(m *Machine, _ *frame, _ *ssa.Function, a []value) value {
		c := m.derefPtr(a[0])
		cur := (*c).(structure)[0].(iface)
		old := a[1].(iface)
		eq := m.equals(types.NewInterfaceType(nil, nil), cur, old)
		if m.path.Branch(eq, "Value.CAS") {
			(*c).(structure)[0] = a[2]
			return m.tt.Bool(true)
		}
		return m.tt.Bool(false)
	}

	prefixModels = append(prefixModels, prefixModel{prefix: "sync/atomic.", pick: func(fn *ssa.Function, name string) interceptFn {
		if fn.Blocks != nil {
			return nil
		}
		op := strings.TrimPrefix(name, "sync/atomic.")
		switch {
		case strings.HasPrefix(op, "Load"):
			return func(m *Machine, _ *frame, _ *ssa.Function, a []value) value { return m.loadFrom(a[0]) }
		case strings.HasPrefix(op, "Store"):
			return func(m *Machine, _ *frame, _ *ssa.Function, a []value) value { m.storeTo(a[0], a[1]); return nil }
		case strings.HasPrefix(op, "Swap"):
			return func(m *Machine, _ *frame, _ *ssa.Function, a []value) value {
				old := m.loadFrom(a[0])
				m.storeTo(a[0], a[1])
				return old
			}
		case strings.HasPrefix(op, "Add"):
			return func(m *Machine, _ *frame, _ *ssa.Function, a []value) value {
				nv := m.tt.Bin(OpAdd, m.loadFrom(a[0]).(*Term), a[1].(*Term))
				m.storeTo(a[0], nv)
				return nv
			}
		case strings.HasPrefix(op, "And"):
			return func(m *Machine, _ *frame, _ *ssa.Function, a []value) value {
				old := m.loadFrom(a[0]).(*Term)
				m.storeTo(a[0], m.tt.Bin(OpAnd, old, a[1].(*Term)))
				return old
			}
		case strings.HasPrefix(op, "Or"):
			return func(m *Machine, _ *frame, _ *ssa.Function, a []value) value {
				old := m.loadFrom(a[0]).(*Term)
				m.storeTo(a[0], m.tt.Bin(OpOr, old, a[1].(*Term)))
				return old
			}
		case strings.HasPrefix(op, "CompareAndSwap"):
			return func(m *Machine, _ *frame, fn *ssa.Function, a []value) value {
				cur := m.loadFrom(a[0])
				et := mustDeref(fn.Signature.Params().At(0).Type())
				eq := m.equals(et, cur, a[1])
				// the CAS outcome as a value: new cell content is ite(eq, new, cur); for scalar
				// cells this avoids a fork
				if ct, ok := cur.(*Term); ok {
					m.storeTo(a[0], m.tt.Ite(eq, a[2].(*Term), ct))
					return eq
				}
				if m.path.Branch(eq, "CAS") {
					m.storeTo(a[0], a[2])
					return m.tt.Bool(true)
				}
				return m.tt.Bool(false)
			}
		}
		return nil
	}})
}

func isNilFunc(f value) bool {
	switch f := f.(type) {
	case *ssa.Function:
		return f == nil
	case *closure:
		return f == nil
	case nil:
		return true
	}
	return false
}

// ---- github.com/puzpuzpuz/xsync/v3 MapOf: modelled as an insertion-ordered association list with
// (possibly symbolic) key comparison. The concurrent-map internals (unsafe, hashing, striped
// counters) are irrelevant to every claim; sequential map semantics are what the registry needs.

func xmapOf(m *Machine, p value) *omap {
	c := m.derefPtr(p)
	o, ok := (*c).(opaque)
	if !ok || o.kind != "xmap" {
		m.unsupported("xsync.MapOf receiver not created by NewMapOf")
	}
	return o.obj.(*omap)
}

func init() {
	prefixModels = append(prefixModels, prefixModel{prefix: "github.com/puzpuzpuz/xsync/v3.NewMapOf[", pick: func(fn *ssa.Function, name string) interceptFn {
		return func(m *Machine, _ *frame, fn *ssa.Function, a []value) value {
			ta := fn.TypeArgs()
			cell := new(value)
			*cell = opaque{kind: "xmap", obj: &omap{keyType: ta[0]}}
			return cell
		}
	}})
	prefixModels = append(prefixModels, prefixModel{prefix: "(*github.com/puzpuzpuz/xsync/v3.MapOf[", pick: func(fn *ssa.Function, name string) interceptFn {
		i := strings.LastIndex(name, ").")
		if i < 0 {
			return nil
		}
		switch name[i+2:] {
		case "Store":
			return func(m *Machine, _ *frame, _ *ssa.Function, a []value) value {
				m.mapInsert(xmapOf(m, a[0]), a[1], copyVal(a[2]))
				return nil
			}
		case "Load":
			return func(m *Machine, _ *frame, fn *ssa.Function, a []value) value {
				mp := xmapOf(m, a[0])
				if i := m.mapFind(mp, a[1]); i >= 0 {
					return tuple{copyVal(mp.vals[i]), m.tt.Bool(true)}
				}
				return tuple{m.zero(fn.Signature.Results().At(0).Type()), m.tt.Bool(false)}
			}
		case "Delete":
			return func(m *Machine, _ *frame, _ *ssa.Function, a []value) value {
				m.mapDelete(xmapOf(m, a[0]), a[1])
				return nil
			}
		case "Size":
			return func(m *Machine, _ *frame, _ *ssa.Function, a []value) value {
				return m.tt.Const(64, uint64(len(xmapOf(m, a[0]).keys)))
			}
		case "LoadAndDelete":
			return func(m *Machine, _ *frame, fn *ssa.Function, a []value) value {
				mp := xmapOf(m, a[0])
				if i := m.mapFind(mp, a[1]); i >= 0 {
					v := copyVal(mp.vals[i])
					mp.keys = append(mp.keys[:i:i], mp.keys[i+1:]...)
					mp.vals = append(mp.vals[:i:i], mp.vals[i+1:]...)
					return tuple{v, m.tt.Bool(true)}
				}
				return tuple{m.zero(fn.Signature.Results().At(0).Type()), m.tt.Bool(false)}
			}
		case "LoadOrStore":
			return func(m *Machine, _ *frame, fn *ssa.Function, a []value) value {
				mp := xmapOf(m, a[0])
				if i := m.mapFind(mp, a[1]); i >= 0 {
					return tuple{copyVal(mp.vals[i]), m.tt.Bool(true)}
				}
				mp.keys = append(mp.keys, copyVal(a[1]))
				mp.vals = append(mp.vals, copyVal(a[2]))
				return tuple{copyVal(a[2]), m.tt.Bool(false)}
			}
		case "Clear":
			return func(m *Machine, _ *frame, _ *ssa.Function, a []value) value {
				mp := xmapOf(m, a[0])
				mp.keys, mp.vals = nil, nil
				return nil
			}
		case "Range":
			return func(m *Machine, caller *frame, _ *ssa.Function, a []value) value {
				mp := xmapOf(m, a[0])
				keys, vals := append([]value(nil), mp.keys...), append([]value(nil), mp.vals...)
				for i := range keys {
					r := m.call(caller, 0, a[1], []value{copyVal(keys[i]), copyVal(vals[i])})
					if t, ok := r.(*Term); ok && !m.path.Branch(t, "MapOf.Range") {
						break
					}
				}
				return nil
			}
		}
		// any other method would otherwise run the real lock-free internals over the opaque model
		return func(m *Machine, _ *frame, fn *ssa.Function, a []value) value {
			m.unsupported("xsync.MapOf method not modelled: " + fn.Name())
			return nil
		}
	}})
}
