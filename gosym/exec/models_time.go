package exec

import (
	"golang.org/x/tools/go/ssa"
)

const hasMonotonic = uint64(1) << 63

// timeValue builds a time.Time value with a monotonic reading of ns.
func (m *Machine) timeValue(ns int64) value {
	sec := int64(1_700_000_000) + ns/1_000_000_000 + (62135596800 - 59453308800) // unixToInternal - minWall offset handled like time.Now
	nsec := ns % 1_000_000_000
	wall := hasMonotonic | uint64(sec)<<30 | uint64(nsec)
	return structure{m.tt.Const(64, wall), m.tt.Const(64, uint64(ns)), (*value)(nil)}
}

func (m *Machine) timerOf(p value) *vtimer {
	c := m.derefPtr(p)
	for _, t := range m.timers {
		if t.cell == c {
			return t
		}
	}
	return nil
}

func (m *Machine) newTimer(d int64, fn value, period int64) (*vtimer, *value) {
	ch := m.newChan(1)
	cell := new(value)
	*cell = structure{ch, m.tt.Bool(true)}
	t := &vtimer{when: m.clock + d, ch: ch, fn: fn, active: true, cell: cell, period: period}
	if fn != nil {
		t.ch = nil
		*cell = structure{(*vchan)(nil), m.tt.Bool(true)}
	}
	m.timers = append(m.timers, t)
	return t, cell
}

func registerTimeModels() {
	models["time.now"] = func(m *Machine, _ *frame, _ *ssa.Function, a []value) value {
		sec := int64(1_700_000_000) + m.clock/1_000_000_000
		nsec := m.clock % 1_000_000_000
		return tuple{m.tt.Const(64, uint64(sec)), m.tt.Const(32, uint64(nsec)), m.tt.Const(64, uint64(m.clock))}
	}
	models["time.runtimeNano"] = func(m *Machine, _ *frame, _ *ssa.Function, a []value) value {
		return m.tt.Const(64, uint64(m.clock))
	}
	models["time.runtimeNow"] = models["time.now"]
	models["time.runtimeIsBubbled"] = func(m *Machine, _ *frame, _ *ssa.Function, a []value) value { return m.tt.Bool(false) }
	models["time.Sleep"] = func(m *Machine, _ *frame, _ *ssa.Function, a []value) value {
		d := int64(m.path.Concretise(a[0].(*Term), "Sleep"))
		if d <= 0 {
			m.yield()
			return nil
		}
		t, _ := m.newTimer(d, nil, 0)
		m.block(func() bool { return len(t.ch.buf) > 0 }, "Sleep")
		return nil
	}
	models["time.NewTimer"] = func(m *Machine, _ *frame, _ *ssa.Function, a []value) value {
		d := int64(m.path.Concretise(a[0].(*Term), "NewTimer"))
		_, cell := m.newTimer(d, nil, 0)
		return cell
	}
	models["time.After"] = func(m *Machine, _ *frame, _ *ssa.Function, a []value) value {
		d := int64(m.path.Concretise(a[0].(*Term), "After"))
		t, _ := m.newTimer(d, nil, 0)
		return t.ch
	}
	models["time.AfterFunc"] = func(m *Machine, _ *frame, _ *ssa.Function, a []value) value {
		d := int64(m.path.Concretise(a[0].(*Term), "AfterFunc"))
		_, cell := m.newTimer(d, a[1], 0)
		return cell
	}
	models["time.NewTicker"] = func(m *Machine, _ *frame, _ *ssa.Function, a []value) value {
		d := int64(m.path.Concretise(a[0].(*Term), "NewTicker"))
		if d <= 0 {
			m.runtimePanic("non-positive interval for NewTicker")
		}
		_, cell := m.newTimer(d, nil, d)
		return cell
	}
	stop := func(m *Machine, _ *frame, _ *ssa.Function, a []value) value {
		t := m.timerOf(a[0])
		if t == nil {
			m.runtimePanic("time: Stop called on uninitialized Timer")
		}
		was := t.active
		t.active = false
		t.period = 0
		if t.ch != nil {
			t.ch.buf = nil // Go 1.23+: no stale value after Stop
		}
		return m.tt.Bool(was)
	}
	models["(*time.Timer).Stop"] = stop
	models["(*time.Ticker).Stop"] = func(m *Machine, c *frame, f *ssa.Function, a []value) value {
		stop(m, c, f, a)
		return nil
	}
	models["(*time.Timer).Reset"] = func(m *Machine, _ *frame, _ *ssa.Function, a []value) value {
		t := m.timerOf(a[0])
		if t == nil {
			m.runtimePanic("time: Reset called on uninitialized Timer")
		}
		d := int64(m.path.Concretise(a[1].(*Term), "Reset"))
		was := t.active
		t.active = true
		t.when = m.clock + d
		if t.ch != nil {
			t.ch.buf = nil
		}
		return m.tt.Bool(was)
	}
	models["(*time.Ticker).Reset"] = func(m *Machine, _ *frame, _ *ssa.Function, a []value) value {
		t := m.timerOf(a[0])
		d := int64(m.path.Concretise(a[1].(*Term), "Reset"))
		t.active = true
		t.period = d
		t.when = m.clock + d
		return nil
	}
	intrinsics["vsymMonoTime"] = func(m *Machine, _ *frame, _ *ssa.Function, a []value) value {
		ns := a[0].(*Term)
		wall := hasMonotonic | uint64(1_700_000_000+62135596800-59453308800)<<30
		return structure{m.tt.Const(64, wall), ns, (*value)(nil)}
	}
}
