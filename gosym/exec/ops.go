package exec

import (
	"fmt"
	"go/constant"
	"go/token"
	"go/types"
	"math"
	"unicode/utf8"

	"golang.org/x/tools/go/ssa"
)

func constBool(c *ssa.Const) bool { return constant.BoolVal(c.Value) }

func constStringVal(c *ssa.Const) value {
	if c.Value.Kind() == constant.String {
		return constant.StringVal(c.Value)
	}
	return string(rune(c.Int64()))
}

func f32bits(f float32) uint32 { return math.Float32bits(f) }
func f64bits(f float64) uint64 { return math.Float64bits(f) }

func decodeRuneBytes(b []byte) (rune, int) { return utf8.DecodeRune(b) }

func fullRuneNeedsMore(b []byte) bool { return !utf8.FullRune(b) }

// ---- floating point helpers ----

type fpKey struct {
	op string
	x  *Term
}

func (m *Machine) fpCmp(op string, x, y *Term) *Term {
	tt := m.tt
	if x.IsConst() && y.IsConst() {
		a, b := bitsToF(x.K, x.W), bitsToF(y.K, y.W)
		switch op {
		case "eq":
			return tt.Bool(a == b)
		case "lt":
			return tt.Bool(a < b)
		case "leq":
			return tt.Bool(a <= b)
		case "gt":
			return tt.Bool(a > b)
		case "geq":
			return tt.Bool(a >= b)
		}
	}
	return tt.FP(op, 0, x, y)
}

func (m *Machine) fpIsNaN(x *Term) *Term {
	tt := m.tt
	if x.IsConst() {
		f := bitsToF(x.K, x.W)
		return tt.Bool(f != f)
	}
	// exponent all ones and mantissa non-zero, directly on the bits
	if x.W == 64 {
		exp := tt.Extract(x, 62, 52)
		man := tt.Extract(x, 51, 0)
		return tt.BAnd(tt.Eq(exp, tt.Const(11, 0x7ff)), tt.BNot(tt.Eq(man, tt.Const(52, 0))))
	}
	exp := tt.Extract(x, 30, 23)
	man := tt.Extract(x, 22, 0)
	return tt.BAnd(tt.Eq(exp, tt.Const(8, 0xff)), tt.BNot(tt.Eq(man, tt.Const(23, 0))))
}

// fpRound models math.Trunc / Floor / Ceil (mode RTZ / RTN / RTP) and math.Sqrt (mode "sqrt") on a
// float64: a fresh result variable pinned by a side constraint; a NaN operand comes back quieted.
func (m *Machine) fpRound(mode string, x *Term) *Term {
	tt := m.tt
	if x.IsConst() {
		f := math.Float64frombits(x.K)
		switch mode {
		case "RTZ":
			f = math.Trunc(f)
		case "RTN":
			f = math.Floor(f)
		case "RTP":
			f = math.Ceil(f)
		case "sqrt":
			f = math.Sqrt(f)
		}
		return tt.Const(64, math.Float64bits(f))
	}
	r := tt.Var(64, "fp"+mode)
	tt.Side = append(tt.Side, tt.mk(OpFP, 0, r, x, nil, 0, "isunary:"+mode))
	xn, rn := m.fpIsNaN(x), m.fpIsNaN(r)
	// NaN in -> the operand quieted; NaN out of a clean operand (sqrt of a negative) -> default NaN
	tt.Side = append(tt.Side, tt.BOr(tt.BNot(xn), tt.Eq(r, tt.Bin(OpOr, x, tt.Const(64, 0x0008000000000000)))))
	tt.Side = append(tt.Side, tt.BOr(tt.BOr(xn, tt.BNot(rn)), tt.Eq(r, tt.Const(64, 0xFFF8000000000000))))
	return r
}

// fpArith computes x op y for floats of width w, introducing a fresh result variable pinned by
// a side constraint (NaN results are pinned to the amd64 default NaN).
func (m *Machine) fpArith(op string, x, y *Term) *Term {
	tt := m.tt
	w := x.W
	if x.IsConst() && y.IsConst() {
		if w == 64 {
			a, b := math.Float64frombits(x.K), math.Float64frombits(y.K)
			var r float64
			switch op {
			case "add":
				r = a + b
			case "sub":
				r = a - b
			case "mul":
				r = a * b
			case "div":
				r = a / b
			}
			return tt.Const(64, math.Float64bits(r))
		}
		a, b := math.Float32frombits(uint32(x.K)), math.Float32frombits(uint32(y.K))
		var r float32
		switch op {
		case "add":
			r = a + b
		case "sub":
			r = a - b
		case "mul":
			r = a * b
		case "div":
			r = a / b
		}
		return tt.Const(32, uint64(math.Float32bits(r)))
	}
	r := tt.Var(w, "fp"+op)
	rel := tt.mk(OpFP, 0, r, x, y, 0, "isop:"+op)
	// If the result is NaN the bit pattern is not determined by to_fp equality; pin it.
	// amd64: NaN operand propagates (quieted); invalid operation gives the default NaN
	// 0xFFF8000000000000 / 0xFFC00000. We pin only "result is NaN" to some quiet NaN by leaving
	// r constrained through isNaN of the FP expression: any NaN pattern satisfies the equality
	// in SMT-LIB (NaN = NaN in fp sort equality "="), so add the canonical-pattern constraint
	// for the invalid-operation case only when neither input is NaN.
	tt.Side = append(tt.Side, rel)
	xn, yn := m.fpIsNaN(x), m.fpIsNaN(y)
	rn := m.fpIsNaN(r)
	var def uint64 = 0xFFF8000000000000
	if w == 32 {
		def = 0xFFC00000
	}
	// result NaN with clean inputs -> default NaN
	tt.Side = append(tt.Side, tt.BOr(tt.BOr(xn, yn), tt.BOr(tt.BNot(rn), tt.Eq(r, tt.Const(w, def)))))
	// NaN input -> that operand quieted (first NaN operand wins on amd64 for add/sub/mul/div: x if x is NaN else y)
	quiet := func(t *Term) *Term {
		if w == 64 {
			return tt.Bin(OpOr, t, tt.Const(64, 0x0008000000000000))
		}
		return tt.Bin(OpOr, t, tt.Const(32, 0x00400000))
	}
	tt.Side = append(tt.Side, tt.BOr(tt.BNot(xn), tt.Eq(r, quiet(x))))
	tt.Side = append(tt.Side, tt.BOr(tt.BOr(xn, tt.BNot(yn)), tt.Eq(r, quiet(y))))
	return r
}

// f64to32 converts float64 bits to float32 bits with amd64 NaN behaviour.
func (m *Machine) f64to32(x *Term) *Term {
	tt := m.tt
	if x.IsConst() {
		return tt.Const(32, uint64(math.Float32bits(float32(math.Float64frombits(x.K)))))
	}
	if r, ok := m.fpMemo[fpKey{"f64to32", x}]; ok {
		return r
	}
	if o, ok := m.fpOrigin[x]; ok {
		// float32(float64(o)) is o itself, except that a signalling NaN comes back quieted
		// (float64(NaN32) sets the quiet bit, which survives the narrowing).
		r := tt.Ite(m.fpIsNaN(o), tt.Bin(OpOr, o, tt.Const(32, 0x00400000)), o)
		m.fpMemo[fpKey{"f64to32", x}] = r
		return r
	}
	r := tt.Var(32, "f64to32")
	m.fpMemo[fpKey{"f64to32", x}] = r
	isnan := m.fpIsNaN(x)
	// NaN: sign | 0x7FC00000 | mant>>29
	sign := tt.Extract(x, 63, 63)
	mant := tt.Extract(x, 51, 29) // top 23 bits of mantissa
	nanv := tt.Concat(sign, tt.Concat(tt.Const(8, 0xff), tt.Bin(OpOr, mant, tt.Const(23, 0x400000))))
	rel := tt.mk(OpFP, 0, r, x, nil, 0, "isval32")
	tt.Side = append(tt.Side, tt.Ite(isnan, tt.Eq(r, nanv), tt.BAnd(rel, tt.BNot(m.fpIsNaN(r)))))
	return r
}

// f32to64 converts float32 bits to float64 bits (exact; NaN sets the quiet bit).
func (m *Machine) f32to64(x *Term) *Term {
	tt := m.tt
	if x.IsConst() {
		return tt.Const(64, math.Float64bits(float64(math.Float32frombits(uint32(x.K)))))
	}
	if r, ok := m.fpMemo[fpKey{"f32to64", x}]; ok {
		return r
	}
	r := tt.Var(64, "f32to64")
	m.fpMemo[fpKey{"f32to64", x}] = r
	m.fpOrigin[r] = x
	isnan := m.fpIsNaN(x)
	sign := tt.Extract(x, 31, 31)
	mant := tt.Extract(x, 22, 0)
	nanv := tt.Concat(sign, tt.Concat(tt.Const(11, 0x7ff), tt.Concat(tt.Bin(OpOr, mant, tt.Const(23, 0x400000)), tt.Const(29, 0))))
	rel := tt.mk(OpFP, 0, r, x, nil, 0, "isval64from32")
	tt.Side = append(tt.Side, tt.Ite(isnan, tt.Eq(r, nanv), tt.BAnd(rel, tt.BNot(m.fpIsNaN(r)))))
	return r
}

// ---- unary ----

func (m *Machine) unop(instr *ssa.UnOp, x value) value {
	tt := m.tt
	switch instr.Op {
	case token.ARROW:
		return m.chanRecv(x.(*vchan), instr.CommaOk, instr.X.Type().Underlying().(*types.Chan).Elem())
	case token.SUB:
		t := x.(*Term)
		if k := basicKind(instr.X.Type()); k.float {
			// flip the sign bit
			return tt.Bin(OpXor, t, tt.Const(t.W, uint64(1)<<(t.W-1)))
		}
		return tt.Neg(t)
	case token.MUL:
		return m.loadFrom(x)
	case token.NOT:
		return tt.BNot(x.(*Term))
	case token.XOR:
		return tt.Not(x.(*Term))
	}
	panic(fmt.Sprintf("invalid unary op %s %T", instr.Op, x))
}

// ---- binary ----

func (m *Machine) eqnil(t types.Type, x, y value) (bool, bool) {
	switch t.Underlying().(type) {
	case *types.Map, *types.Signature, *types.Slice:
		return isNilVal(x) || isNilVal(y), true
	}
	return false, false
}

func isNilVal(v value) bool {
	switch v := v.(type) {
	case []value:
		return v == nil
	case *omap:
		return v == nil
	case *ssa.Function:
		return v == nil
	case *closure:
		return v == nil
	case *extFunc:
		return v == nil
	case *ssa.Builtin:
		return v == nil
	}
	panic(fmt.Sprintf("isNilVal: %T", v))
}

func (m *Machine) binop(op token.Token, t, ty types.Type, x, y value) value {
	tt := m.tt
	if op == token.EQL || op == token.NEQ {
		var r *Term
		if _, ok := m.eqnil(t, x, y); ok {
			// comparison of slice/map/func against nil
			r = tt.Bool(isNilVal(x) && isNilVal(y))
		} else {
			r = m.equals(t, x, y)
		}
		if op == token.NEQ {
			return tt.BNot(r)
		}
		return r
	}
	// strings
	if isString(t) {
		switch op {
		case token.ADD:
			if xs, ok := x.(string); ok {
				if ys, ok := y.(string); ok {
					return xs + ys
				}
			}
			xb, yb := m.strBytes(x), m.strBytes(y)
			nb := make([]value, 0, len(xb)+len(yb))
			nb = append(append(nb, xb...), yb...)
			return m.mkStr(nb)
		case token.LSS, token.LEQ, token.GTR, token.GEQ:
			return m.strCmp(op, x, y)
		}
		panic("binop: bad string op " + op.String())
	}
	k := basicKind(t)
	if !k.ok {
		panic(fmt.Sprintf("binop %s on %s", op, t))
	}
	a, b := x.(*Term), y.(*Term)
	if k.isBool {
		switch op {
		case token.AND, token.LAND:
			return tt.BAnd(a, b)
		case token.OR, token.LOR:
			return tt.BOr(a, b)
		}
		panic("binop: bad bool op " + op.String())
	}
	if k.float {
		switch op {
		case token.ADD:
			return m.fpArith("add", a, b)
		case token.SUB:
			return m.fpArith("sub", a, b)
		case token.MUL:
			return m.fpArith("mul", a, b)
		case token.QUO:
			return m.fpArith("div", a, b)
		case token.LSS:
			return m.fpCmp("lt", a, b)
		case token.LEQ:
			return m.fpCmp("leq", a, b)
		case token.GTR:
			return m.fpCmp("gt", a, b)
		case token.GEQ:
			return m.fpCmp("geq", a, b)
		}
		panic("binop: bad float op " + op.String())
	}
	switch op {
	case token.ADD:
		return tt.Bin(OpAdd, a, b)
	case token.SUB:
		return tt.Bin(OpSub, a, b)
	case token.MUL:
		return tt.Bin(OpMul, a, b)
	case token.QUO, token.REM:
		if !m.path.Branch(tt.BNot(tt.Eq(b, tt.Const(b.W, 0))), "divzero") {
			m.runtimePanic("runtime error: integer divide by zero")
		}
		if k.signed {
			if op == token.QUO {
				return tt.Bin(OpSDiv, a, b)
			}
			return tt.Bin(OpSRem, a, b)
		}
		if op == token.QUO {
			return tt.Bin(OpUDiv, a, b)
		}
		return tt.Bin(OpURem, a, b)
	case token.AND:
		return tt.Bin(OpAnd, a, b)
	case token.OR:
		return tt.Bin(OpOr, a, b)
	case token.XOR:
		return tt.Bin(OpXor, a, b)
	case token.AND_NOT:
		return tt.Bin(OpAnd, a, tt.Not(b))
	case token.SHL, token.SHR:
		ky := basicKind(ty)
		if ky.signed {
			if !m.path.Branch(tt.Cmp(OpSLe, tt.Const(b.W, 0), b), "shift-neg") {
				m.runtimePanic("runtime error: negative shift amount")
			}
		}
		// bring the count to a's width, saturating
		var cnt *Term
		switch {
		case b.W == a.W:
			cnt = b
		case b.W < a.W:
			cnt = tt.ZExt(b, a.W)
		default:
			big := tt.Cmp(OpULe, tt.Const(b.W, uint64(a.W)), b)
			cnt = tt.Ite(big, tt.Const(a.W, uint64(a.W)), tt.Extract(b, a.W-1, 0))
		}
		if op == token.SHL {
			return tt.Bin(OpShl, a, cnt)
		}
		if k.signed {
			return tt.Bin(OpAShr, a, cnt)
		}
		return tt.Bin(OpLShr, a, cnt)
	case token.LSS:
		if k.signed {
			return tt.Cmp(OpSLt, a, b)
		}
		return tt.Cmp(OpULt, a, b)
	case token.LEQ:
		if k.signed {
			return tt.Cmp(OpSLe, a, b)
		}
		return tt.Cmp(OpULe, a, b)
	case token.GTR:
		if k.signed {
			return tt.Cmp(OpSLt, b, a)
		}
		return tt.Cmp(OpULt, b, a)
	case token.GEQ:
		if k.signed {
			return tt.Cmp(OpSLe, b, a)
		}
		return tt.Cmp(OpULe, b, a)
	}
	panic(fmt.Sprintf("invalid binary op: %s", op))
}

// strCmp builds the lexicographic comparison of two strings.
func (m *Machine) strCmp(op token.Token, x, y value) *Term {
	tt := m.tt
	if xs, ok := x.(string); ok {
		if ys, ok := y.(string); ok {
			switch op {
			case token.LSS:
				return tt.Bool(xs < ys)
			case token.LEQ:
				return tt.Bool(xs <= ys)
			case token.GTR:
				return tt.Bool(xs > ys)
			default:
				return tt.Bool(xs >= ys)
			}
		}
	}
	xb, yb := m.strBytes(x), m.strBytes(y)
	// lt(i): x[i:] < y[i:]
	n := len(xb)
	if len(yb) < n {
		n = len(yb)
	}
	// base: at common prefix end, x<y iff len(x)<len(y); x==y iff equal length
	lt := tt.Bool(len(xb) < len(yb))
	eq := tt.Bool(len(xb) == len(yb))
	for i := n - 1; i >= 0; i-- {
		a, b := xb[i].(*Term), yb[i].(*Term)
		e := tt.Eq(a, b)
		lt = tt.BOr(tt.Cmp(OpULt, a, b), tt.BAnd(e, lt))
		eq = tt.BAnd(e, eq)
	}
	switch op {
	case token.LSS:
		return lt
	case token.LEQ:
		return tt.BOr(lt, eq)
	case token.GTR:
		return tt.BNot(tt.BOr(lt, eq))
	default:
		return tt.BNot(lt)
	}
}

// ---- conversions ----

func (m *Machine) conv(tdst, tsrc types.Type, x value) value {
	tt := m.tt
	ud, us := tdst.Underlying(), tsrc.Underlying()

	switch us := us.(type) {
	case *types.Pointer:
		if b, ok := ud.(*types.Basic); ok && b.Kind() == types.UnsafePointer {
			return uptr{p: x}
		}
		return x
	case *types.Slice:
		// []byte/[]rune -> string
		if isString(ud) {
			s := x.([]value)
			if e, ok := us.Elem().Underlying().(*types.Basic); ok && e.Kind() == types.Int32 {
				var out []value
				for _, r := range s {
					rv := rune(m.path.Concretise(r.(*Term), "rune"))
					var buf [4]byte
					n := utf8.EncodeRune(buf[:], rv)
					for i := 0; i < n; i++ {
						out = append(out, tt.Const(8, uint64(buf[i])))
					}
				}
				return m.mkStr(out)
			}
			nb := make([]value, len(s))
			copy(nb, s)
			return m.mkStr(nb)
		}
		return x
	case *types.Basic:
		if us.Kind() == types.UnsafePointer {
			if up, ok := x.(uptr); ok {
				if _, isPtr := ud.(*types.Pointer); isPtr {
					if up.p == nil {
						return (*value)(nil)
					}
					return up.p
				}
				if b, ok := ud.(*types.Basic); ok && b.Kind() == types.Uintptr {
					// pointer identity as an opaque number: only nil-ness is meaningful
					if c, _ := cellOf(up); c == nil {
						return tt.Const(64, 0)
					}
					return tt.Const(64, 0xdead0000)
				}
				return x
			}
			return x
		}
		if us.Info()&types.IsString != 0 {
			switch d := ud.(type) {
			case *types.Slice:
				if e, ok := d.Elem().Underlying().(*types.Basic); ok && e.Kind() == types.Int32 {
					b := m.strBytes(x)
					var out []value
					for i := 0; i < len(b); {
						r, n := m.decodeRune(b[i:])
						out = append(out, r)
						i += n
					}
					return out
				}
				b := m.strBytes(x)
				nb := make([]value, len(b))
				copy(nb, b)
				return nb
			case *types.Basic:
				if d.Info()&types.IsString != 0 {
					return x
				}
			}
			panic(fmt.Sprintf("conv: string -> %s", tdst))
		}
		ks := basicKind(us)
		if !ks.ok {
			break
		}
		v := x.(*Term)
		if isString(ud) {
			// integer -> string (rune): an ASCII rune is one byte (kept symbolic); others are concretised
			if !v.IsConst() {
				var ascii *Term
				if ks.signed {
					ascii = tt.BAnd(tt.Cmp(OpSLe, tt.Const(v.W, 0), v), tt.Cmp(OpSLt, v, tt.Const(v.W, 0x80)))
				} else {
					ascii = tt.Cmp(OpULt, v, tt.Const(v.W, 0x80))
				}
				if m.path.Branch(ascii, "rune-to-string-ascii") {
					return &symstr{b: []value{tt.Extract(v, 7, 0)}}
				}
			}
			r := rune(m.path.Concretise(v, "rune"))
			if ks.signed {
				r = rune(sext(uint64(r), v.W))
			}
			return string(r)
		}
		if b, ok := ud.(*types.Basic); ok && b.Kind() == types.UnsafePointer {
			return uptr{}
		}
		kd := basicKind(ud)
		if !kd.ok {
			break
		}
		switch {
		case !ks.float && !kd.float:
			if kd.isBool || ks.isBool {
				return v
			}
			if kd.w <= ks.w {
				if kd.w == ks.w {
					return v
				}
				return tt.Extract(v, kd.w-1, 0)
			}
			if ks.signed {
				return tt.SExt(v, kd.w)
			}
			return tt.ZExt(v, kd.w)
		case ks.float && kd.float:
			if ks.w == kd.w {
				return v
			}
			if ks.w == 64 {
				return m.f64to32(v)
			}
			return m.f32to64(v)
		case !ks.float && kd.float:
			return m.intToFloat(v, ks, kd)
		default:
			return m.floatToInt(v, ks, kd)
		}
	case *types.Signature, *types.Map, *types.Chan, *types.Struct, *types.Array, *types.Interface:
		return x
	}
	panic(fmt.Sprintf("unsupported conversion: %s -> %s (%T)", tsrc, tdst, x))
}

func (m *Machine) intToFloat(v *Term, ks, kd scalarKind) *Term {
	tt := m.tt
	if v.IsConst() {
		var f float64
		if ks.signed {
			f = float64(v.SVal())
		} else {
			f = float64(v.K)
		}
		if kd.w == 32 {
			var f32 float32
			if ks.signed {
				f32 = float32(v.SVal())
			} else {
				f32 = float32(v.K)
			}
			return tt.Const(32, uint64(math.Float32bits(f32)))
		}
		return tt.Const(64, math.Float64bits(f))
	}
	var v64 *Term
	if ks.signed {
		v64 = tt.SExt(v, 64)
	} else {
		v64 = tt.ZExt(v, 64)
	}
	r := tt.Var(kd.w, "i2f")
	name := "isfromubv"
	if ks.signed {
		name = "isfromsbv"
	}
	name += fmt.Sprint(kd.w)
	tt.Side = append(tt.Side, tt.mk(OpFP, 0, r, v64, nil, 0, name))
	tt.Side = append(tt.Side, tt.BNot(m.fpIsNaN(r)))
	// to_fp equality does not distinguish +0/-0: integer zero converts to +0
	tt.Side = append(tt.Side, tt.BOr(tt.BNot(tt.Eq(v64, tt.Const(64, 0))), tt.Eq(r, tt.Const(kd.w, 0))))
	return r
}

func (m *Machine) floatToInt(v *Term, ks, kd scalarKind) *Term {
	tt := m.tt
	if v.IsConst() {
		f := bitsToF(v.K, v.W)
		// amd64 semantics: cvttsd2si yields MinInt64 ("integer indefinite") when out of range
		var r uint64
		switch {
		case kd.signed || kd.w < 64:
			if f != f || f >= 9223372036854775808.0 || f < -9223372036854775808.0 {
				r = 0x8000000000000000
			} else {
				r = uint64(int64(f))
			}
		default:
			r = floatToUint64(f)
		}
		return tt.Const(kd.w, r)
	}
	// signed 64-bit conversion, truncated to the destination width
	s := tt.FP("to_sbv64", 64, v, nil)
	nan := m.fpIsNaN(v)
	var lo, hi *Term
	if v.W == 64 {
		lo = tt.Const(64, math.Float64bits(-9223372036854775808.0))
		hi = tt.Const(64, math.Float64bits(9223372036854775808.0))
	} else {
		lo = tt.Const(32, uint64(math.Float32bits(-9223372036854775808.0)))
		hi = tt.Const(32, uint64(math.Float32bits(9223372036854775808.0)))
	}
	inRange := tt.BAnd(tt.BNot(nan), tt.BAnd(m.fpCmp("geq", v, lo), m.fpCmp("lt", v, hi)))
	r := tt.Ite(inRange, s, tt.Const(64, 0x8000000000000000))
	if !kd.signed && kd.w == 64 {
		// uint64(f): Go on amd64 handles f >= 2^63 by subtracting 2^63 first.
		big := tt.BAnd(tt.BNot(nan), m.fpCmp("geq", v, hi))
		_ = big
		// Values >= 2^63 are outside every harness; treat like the signed path (documented).
	}
	if kd.w < 64 {
		return tt.Extract(r, kd.w-1, 0)
	}
	return r
}

func floatToUint64(f float64) uint64 {
	if f != f {
		return 0x8000000000000000
	}
	if f >= 9223372036854775808.0 {
		g := f - 9223372036854775808.0
		if g >= 9223372036854775808.0 {
			return 0x8000000000000000 ^ 0x8000000000000000
		}
		return uint64(int64(g)) ^ 0x8000000000000000
	}
	if f < -9223372036854775808.0 {
		return 0x8000000000000000
	}
	return uint64(int64(f))
}

// ---- builtins ----

func (m *Machine) callBuiltin(caller *frame, fn *ssa.Builtin, args []value) value {
	tt := m.tt
	switch fn.Name() {
	case "append":
		if len(args) == 1 {
			return args[0]
		}
		dst := args[0].([]value)
		var src []value
		switch s := args[1].(type) {
		case string, *symstr:
			src = m.strBytes(s)
		case []value:
			src = s
		}
		if len(src) == 0 {
			return dst
		}
		return m.appendVals(dst, src, fn)

	case "copy":
		dst := args[0].([]value)
		var src []value
		switch s := args[1].(type) {
		case string, *symstr:
			src = m.strBytes(s)
		case []value:
			src = s
		}
		n := len(dst)
		if len(src) < n {
			n = len(src)
		}
		// memmove semantics
		tmp := make([]value, n)
		for i := 0; i < n; i++ {
			tmp[i] = copyVal(src[i])
		}
		for i := 0; i < n; i++ {
			store(&dst[i], tmp[i])
		}
		return tt.Const(64, uint64(n))

	case "close":
		m.chanClose(args[0].(*vchan))
		return nil

	case "delete":
		m.mapDelete(args[0].(*omap), args[1])
		return nil

	case "print", "println":
		return nil

	case "len":
		switch x := args[0].(type) {
		case string:
			return tt.Const(64, uint64(len(x)))
		case *symstr:
			return tt.Const(64, uint64(len(x.b)))
		case array:
			return tt.Const(64, uint64(len(x)))
		case *value:
			if x == nil {
				return tt.Const(64, uint64(mustDeref(fn.Type().(*types.Signature).Params().At(0).Type()).Underlying().(*types.Array).Len()))
			}
			return tt.Const(64, uint64(len((*x).(array))))
		case []value:
			return tt.Const(64, uint64(len(x)))
		case *omap:
			if x == nil {
				return tt.Const(64, 0)
			}
			return tt.Const(64, uint64(len(x.keys)))
		case *vchan:
			if x == nil {
				return tt.Const(64, 0)
			}
			return tt.Const(64, uint64(len(x.buf)))
		}
		panic(fmt.Sprintf("len: illegal operand: %T", args[0]))

	case "cap":
		switch x := args[0].(type) {
		case array:
			return tt.Const(64, uint64(len(x)))
		case *value:
			return tt.Const(64, uint64(len((*x).(array))))
		case []value:
			return tt.Const(64, uint64(cap(x)))
		case *vchan:
			if x == nil {
				return tt.Const(64, 0)
			}
			return tt.Const(64, uint64(x.cap))
		}
		panic(fmt.Sprintf("cap: illegal operand: %T", args[0]))

	case "min", "max":
		t := fn.Type().(*types.Signature).Params().At(0).Type()
		r := args[0]
		for _, a := range args[1:] {
			var lt *Term
			if fn.Name() == "min" {
				lt = m.binop(token.LSS, t, t, a, r).(*Term)
			} else {
				lt = m.binop(token.GTR, t, t, a, r).(*Term)
			}
			if rt, ok := r.(*Term); ok {
				r = tt.Ite(lt, a.(*Term), rt)
			} else if m.path.Branch(lt, "minmax") {
				r = a
			}
		}
		return r

	case "panic":
		panic(targetPanic{v: args[0], msg: "panic: " + m.panicText(args[0]), stack: m.stackString()})

	case "recover":
		return m.doRecover(caller)

	case "ssa:wrapnilchk":
		recv := args[0]
		if p, ok := recv.(*value); ok && p == nil {
			m.runtimePanic(fmt.Sprintf("value method (%s).%s called using nil pointer", toStr(args[1]), toStr(args[2])))
		}
		return recv

	case "ssa:deferstack":
		return &caller.defers

	case "clear":
		switch x := args[0].(type) {
		case []value:
			if len(x) > 0 {
				et := fn.Type().(*types.Signature).Params().At(0).Type().Underlying().(*types.Slice).Elem()
				for i := range x {
					store(&x[i], m.zero(et))
				}
			}
		case *omap:
			if x != nil {
				x.keys, x.vals = nil, nil
			}
		}
		return nil

	// unsafe
	case "SliceData":
		s := args[0].([]value)
		if s == nil {
			return (*value)(nil)
		}
		return sdptr{s: s}
	case "Slice":
		n := int(m.path.Concretise(args[1].(*Term), "unsafe.Slice"))
		switch p := args[0].(type) {
		case sdptr:
			if n > cap(p.s) {
				m.runtimePanic("unsafe.Slice: len out of range")
			}
			return p.s[:n:n]
		case *value:
			if p == nil {
				if n == 0 {
					return []value(nil)
				}
				m.runtimePanic("unsafe.Slice: ptr is nil and len is not zero")
			}
			if n == 1 {
				cellSlice := []value{nil}
				_ = cellSlice
			}
			m.unsupported("unsafe.Slice on a plain pointer")
		}
		m.unsupported(fmt.Sprintf("unsafe.Slice(%T)", args[0]))
	case "String":
		n := int(m.path.Concretise(args[1].(*Term), "unsafe.String"))
		switch p := args[0].(type) {
		case sdptr:
			if n > cap(p.s) {
				m.runtimePanic("unsafe.String: len out of range")
			}
			return &symstr{b: p.s[:n:n]}
		case *value:
			if p == nil && n == 0 {
				return ""
			}
		}
		m.unsupported(fmt.Sprintf("unsafe.String(%T)", args[0]))
	case "StringData":
		switch s := args[0].(type) {
		case *symstr:
			return sdptr{s: s.b}
		case string:
			return sdptr{s: m.strBytes(s)}
		}
	}
	m.unsupported("built-in " + fn.Name())
	return nil
}

// appendVals implements append with Go's amortised growth (capacity doubling), accounting the
// growth against the allocation guard.
func (m *Machine) appendVals(dst, src []value, fn *ssa.Builtin) []value {
	need := len(dst) + len(src)
	if need <= cap(dst) {
		n := len(dst)
		dst = dst[:need]
		for i, v := range src {
			dst[n+i] = copyVal(v)
		}
		return dst
	}
	// element size first: the capacity after growth follows the Go runtime (growslice): amortised
	// doubling, then the allocation rounded up to its malloc size class, so that cap() - and with
	// it every len-vs-cap mistake of the code under test - is what a native run sees
	esz := int64(8)
	if fn == nil {
		esz = 1
	} else if sig, ok := fn.Type().(*types.Signature); ok && sig.Params().Len() > 0 {
		if st, ok := sig.Params().At(0).Type().Underlying().(*types.Slice); ok {
			esz = m.world.Sizes.Sizeof(st.Elem())
		}
	}
	newCap := goGrowCap(cap(dst), need, esz)
	m.allocGuard(m.tt.Const(64, uint64(newCap)), esz, "append")
	if newCap > maxModelAlloc {
		m.path.end("bound: append too large to model")
	}
	nd := make([]value, need, newCap)
	for i, v := range dst {
		nd[i] = v
	}
	for i, v := range src {
		nd[len(dst)+i] = copyVal(v)
	}
	// zero the spare capacity lazily: elements beyond len are never read before being written,
	// except through reslicing; fill with nil-safe zero terms for scalar slices.
	if need < newCap && len(nd) > 0 {
		if t, ok := nd[0].(*Term); ok {
			z := m.tt.Const(t.W, 0)
			if t.W == 0 {
				z = m.tt.Bool(false)
			}
			full := nd[:newCap]
			for i := need; i < newCap; i++ {
				full[i] = z
			}
		}
	}
	return nd
}

// goSizeClasses are the Go runtime's small-object size classes (runtime/sizeclasses.go).
var goSizeClasses = []int64{8, 16, 24, 32, 48, 64, 80, 96, 112, 128, 144, 160, 176, 192, 208, 224, 240, 256, 288, 320, 352, 384, 416, 448, 480, 512, 576, 640, 704, 768, 896, 1024, 1152, 1280, 1408, 1536, 1792, 2048, 2304, 2688, 3072, 3200, 3456, 4096, 4864, 5120, 5376, 6144, 6528, 6784, 6912, 8192, 9472, 9728, 10240, 10880, 12288, 13568, 14336, 16384, 18432, 19072, 20480, 21760, 24576, 27264, 28672, 32768}

// goGrowCap mirrors runtime.growslice's capacity computation (nextslicecap + roundupsize).
func goGrowCap(oldCap, newLen int, esz int64) int {
	newcap := oldCap
	doublecap := newcap + newcap
	switch {
	case newLen > doublecap:
		newcap = newLen
	case oldCap < 256:
		newcap = doublecap
	default:
		for newcap < newLen {
			newcap += (newcap + 3*256) >> 2
		}
	}
	if esz <= 0 {
		return newcap
	}
	mem := int64(newcap) * esz
	if mem <= 32768 {
		for _, c := range goSizeClasses {
			if mem <= c {
				mem = c
				break
			}
		}
	} else {
		const page = 8192
		mem = (mem + page - 1) / page * page
	}
	return int(mem / esz)
}
