package exec

// Path: one execution of a harness, identified by its decision prefix. Exploration is stateless
// depth-first by re-execution: a path replays the decisions of its prefix without consulting the
// solver, and at the first undecided symbolic branch asks the solver which sides are feasible,
// continues on one and schedules the other as a new prefix.

import (
	"fmt"
)

type Decision struct {
	Taken  bool   // side taken
	Forced bool   // the other side was infeasible (no alternative scheduled)
	HasVal bool   // concretisation decision: cond is (term == Val)
	Val    uint64 // value for concretisation
}

type Violation struct {
	Label   string
	Kind    string // "assert", "panic", "alloc", "blocked"
	Detail  string
	Inputs  []InputVal // model values for the harness inputs in creation order
	Stack   string
	PathLen int
	Regions []string
	Harness string
	// Scheduled: the path had taken the harness-requested preemption (vsymPreemptAt) when the
	// violation occurred, i.e. the counterexample is an input vector AND a schedule
	Scheduled bool
}

type InputVal struct {
	Kind string `json:"kind"` // u8,u16,u32,u64,bool,choose,bytes...
	Val  uint64 `json:"val"`
}

// pathEnd is the panic value used to unwind the interpreter when a path stops.
type pathEnd struct {
	reason string
}

type inputVar struct {
	kind string
	t    *Term
}

type Limits struct {
	MaxSteps     int64
	MaxDecisions int
	MaxViolation int
}

type Path struct {
	tt      *TermTab
	sol     *Solver
	prefix  []Decision
	pos     int
	Trace   []Decision
	NewWork [][]Decision

	inputs   []inputVar
	assumeOK bool

	Violations []Violation
	Reached    map[string]bool
	Regions    []string
	Expected   []string
	Observed   []string
	EndReason  string
	Steps      int64
	Unknowns   int
	Obligs     int // obligations discharged (unsat) on this path
	ObligSat   int
	nside      int
	limits     Limits
	assertedN  int
	// Sample of the path condition for evidence.
	Notes []string
	// allocation guard
	allocArmed bool
	allocBound int64
	allocConst int64 // concrete part
	allocSym   *Term // symbolic part (64-bit) or nil
	MaxDepth   int
	// pinned mode: inputs come from a concrete vector and no solver is used.
	pinned    []InputVal
	pinnedPos int
	isPinned  bool
}

func NewPath(tt *TermTab, sol *Solver, prefix []Decision, lim Limits) *Path {
	return &Path{tt: tt, sol: sol, prefix: prefix, Reached: map[string]bool{}, limits: lim}
}

func NewPinnedPath(tt *TermTab, vec []InputVal, lim Limits) *Path {
	return &Path{tt: tt, pinned: vec, isPinned: true, Reached: map[string]bool{}, limits: lim}
}

func (p *Path) end(reason string) {
	panic(pathEnd{reason})
}

// flushSide asserts side constraints created since the last call.
func (p *Path) flushSide() {
	if p.isPinned {
		return
	}
	for p.nside < len(p.tt.Side) {
		p.sol.Assert(p.tt.Side[p.nside])
		p.nside++
	}
}

// Branch decides a symbolic condition. Returns the side taken.
func (p *Path) Branch(cond *Term, why string) bool {
	if cond.W != 0 {
		panic("Branch: non-bool condition")
	}
	if cond.IsConst() {
		return cond.K != 0
	}
	if p.isPinned {
		panic("Branch: symbolic condition in pinned mode: " + cond.String())
	}
	p.flushSide()
	if p.pos < len(p.prefix) {
		d := p.prefix[p.pos]
		p.pos++
		p.Trace = append(p.Trace, d)
		if !d.Forced {
			if d.Taken {
				p.sol.Assert(cond)
			} else {
				p.sol.Assert(p.tt.BNot(cond))
			}
		}
		return d.Taken
	}
	if len(p.Trace) >= p.limits.MaxDecisions {
		p.end("bound: decision limit")
	}
	ncond := p.tt.BNot(cond)
	rt := p.sol.Check(cond)
	var rf SatResult
	if rt == Unsat {
		// the path condition is satisfiable, so the other side must be
		rf = Sat
	} else {
		rf = p.sol.Check(ncond)
	}
	if rt == Unknown || rf == Unknown {
		p.Unknowns++
	}
	switch {
	case rt != Unsat && rf != Unsat:
		alt := append(append([]Decision(nil), p.Trace...), Decision{Taken: false})
		p.NewWork = append(p.NewWork, alt)
		p.Trace = append(p.Trace, Decision{Taken: true})
		p.sol.Assert(cond)
		return true
	case rt != Unsat:
		p.Trace = append(p.Trace, Decision{Taken: true, Forced: true})
		return true
	case rf != Unsat:
		p.Trace = append(p.Trace, Decision{Taken: false, Forced: true})
		return false
	}
	p.end("infeasible")
	return false
}

// Concretise picks a feasible concrete value for t, scheduling the exploration of the other
// values as an alternative path.
func (p *Path) Concretise(t *Term, why string) uint64 {
	if t.IsConst() {
		return t.K
	}
	if p.isPinned {
		panic("Concretise: symbolic value in pinned mode")
	}
	p.flushSide()
	for {
		if p.pos < len(p.prefix) {
			d := p.prefix[p.pos]
			p.pos++
			p.Trace = append(p.Trace, d)
			if !d.HasVal {
				panic("Concretise: decision kind mismatch while replaying prefix (" + why + ")")
			}
			c := p.tt.Eq(t, p.tt.Const(t.W, d.Val))
			if d.Taken {
				if !d.Forced {
					p.sol.Assert(c)
				}
				return d.Val
			}
			p.sol.Assert(p.tt.BNot(c))
			continue
		}
		if len(p.Trace) >= p.limits.MaxDecisions {
			p.end("bound: decision limit")
		}
		// ask for a feasible value
		p.sol.Define(t)
		r := p.sol.CheckKeep()
		if r != Sat {
			p.sol.EndKeep()
			if r == Unknown {
				p.Unknowns++
				p.end("solver unknown in concretise")
			}
			p.end("infeasible")
		}
		vals, err := p.sol.Values([]*Term{t})
		p.sol.EndKeep()
		if err != nil {
			p.Unknowns++
			p.end("solver error in concretise: " + err.Error())
		}
		v := vals[t]
		c := p.tt.Eq(t, p.tt.Const(t.W, v))
		// is any other value feasible?
		other := p.sol.Check(p.tt.BNot(c))
		if other == Unknown {
			p.Unknowns++
		}
		if other == Unsat {
			p.Trace = append(p.Trace, Decision{Taken: true, Forced: true, HasVal: true, Val: v})
			return v
		}
		alt := append(append([]Decision(nil), p.Trace...), Decision{Taken: false, HasVal: true, Val: v})
		p.NewWork = append(p.NewWork, alt)
		p.Trace = append(p.Trace, Decision{Taken: true, HasVal: true, Val: v})
		p.sol.Assert(c)
		return v
	}
}

// Assume constrains the path; ends it silently if the assumption cannot hold.
func (p *Path) Assume(cond *Term) {
	if cond.IsConst() {
		if cond.K == 0 {
			p.end("assume-false")
		}
		return
	}
	if p.isPinned {
		panic("Assume: symbolic in pinned mode")
	}
	p.flushSide()
	if p.pos < len(p.prefix) {
		// Below the prefix horizon the assumption was feasible when first explored.
		p.sol.Assert(cond)
		return
	}
	r := p.sol.Check(cond)
	if r == Unsat {
		p.end("assume-false")
	}
	if r == Unknown {
		p.Unknowns++
	}
	p.sol.Assert(cond)
}

// Assert discharges an obligation: path condition ∧ ¬cond must be unsatisfiable.
func (p *Path) Assert(cond *Term, label string, m *Machine) {
	if cond.IsConst() {
		if cond.K != 0 {
			p.Obligs++
			return
		}
		p.violation("assert", label, "assertion is constant false on this path", m)
		p.end("violation")
	}
	if p.isPinned {
		panic("Assert: symbolic in pinned mode")
	}
	p.flushSide()
	if p.pos < len(p.prefix) {
		// Already discharged (or reported) by the path this prefix was forked from: the path
		// condition here is identical.
		p.sol.Assert(cond)
		return
	}
	r := p.sol.CheckKeep(p.tt.BNot(cond))
	switch r {
	case Unsat:
		p.sol.EndKeep()
		p.Obligs++
		return
	case Unknown:
		p.sol.EndKeep()
		p.Unknowns++
		p.Notes = append(p.Notes, "unknown on obligation "+label)
		// continue under the assumption that it holds
		p.sol.Assert(cond)
		return
	}
	p.ObligSat++
	p.recordViolation("assert", label, "", m)
	p.sol.EndKeep()
	// Continue on the side where the assertion holds, if any.
	if p.sol.Check(cond) == Unsat {
		p.end("violation")
	}
	p.sol.Assert(cond)
}

// violation records a violation on the current path condition (which is satisfiable).
func (p *Path) violation(kind, label, detail string, m *Machine) {
	if p.isPinned {
		p.Violations = append(p.Violations, Violation{Label: label, Kind: kind, Detail: detail, Stack: m.stackString(), Regions: append([]string(nil), p.Regions...)})
		return
	}
	p.flushSide()
	r := p.sol.CheckKeep()
	if r == Sat {
		p.recordViolation(kind, label, detail, m)
	} else if r == Unknown {
		p.Unknowns++
		p.Notes = append(p.Notes, "unknown while extracting model for "+label)
	}
	p.sol.EndKeep()
}

// recordViolation reads the model (solver must be in a Sat state).
func (p *Path) recordViolation(kind, label, detail string, m *Machine) {
	ts := make([]*Term, len(p.inputs))
	for i, in := range p.inputs {
		ts[i] = in.t
	}
	vals, err := p.sol.Values(ts)
	v := Violation{Label: label, Kind: kind, Detail: detail, PathLen: len(p.Trace), Regions: append([]string(nil), p.Regions...)}
	if m != nil {
		v.Stack = m.stackString()
		v.Scheduled = m.preemptHit || m.preemptEver
	}
	if err != nil {
		v.Detail += " (model error: " + err.Error() + ")"
		p.Unknowns++
	} else {
		for _, in := range p.inputs {
			v.Inputs = append(v.Inputs, InputVal{Kind: in.kind, Val: vals[in.t]})
		}
	}
	p.Violations = append(p.Violations, v)
	if len(p.Violations) >= p.limits.MaxViolation {
		p.end("violation-limit")
	}
}

// NewInput creates a fresh symbolic input (or reads the next pinned value).
func (p *Path) NewInput(kind string, w uint8) *Term {
	if p.isPinned {
		if p.pinnedPos >= len(p.pinned) {
			// Inputs beyond the vector are zero (unconstrained in the model).
			p.pinnedPos++
			return p.tt.Const(w, 0)
		}
		iv := p.pinned[p.pinnedPos]
		p.pinnedPos++
		if w == 0 {
			return p.tt.Bool(iv.Val != 0)
		}
		return p.tt.Const(w, iv.Val)
	}
	t := p.tt.Var(w, fmt.Sprintf("%s%d", kind, len(p.inputs)))
	p.inputs = append(p.inputs, inputVar{kind: kind, t: t})
	return t
}

// InputModel returns a satisfying assignment of the inputs for the current path condition.
func (p *Path) InputModel() ([]InputVal, bool) {
	if p.isPinned {
		return p.pinned, true
	}
	p.flushSide()
	r := p.sol.CheckKeep()
	defer p.sol.EndKeep()
	if r != Sat {
		return nil, false
	}
	ts := make([]*Term, len(p.inputs))
	for i, in := range p.inputs {
		ts[i] = in.t
	}
	vals, err := p.sol.Values(ts)
	if err != nil {
		return nil, false
	}
	out := make([]InputVal, len(p.inputs))
	for i, in := range p.inputs {
		out[i] = InputVal{Kind: in.kind, Val: vals[in.t]}
	}
	return out, true
}
