package exec

// Exploration driver: a work-list of decision prefixes processed by parallel workers, each with
// its own solver process and a fresh Machine per path.

import (
	"fmt"
	"go/token"
	"os"
	"runtime/debug"
	"sort"
	"strings"
	"sync"
	"time"

	"golang.org/x/tools/go/ssa"
)

type Options struct {
	Workers       int
	SolverKind    string
	TimeoutMS     int
	MaxSteps      int64
	MaxDecisions  int
	MaxPaths      int
	MaxViolations int
	Deadline      time.Time
	Trace         bool
	SolverLogDir  string
	MaxSamples    int
	MaxModels     int
	Progress      bool
}

type PathSample struct {
	Decisions int        `json:"decisions"`
	End       string     `json:"end"`
	Inputs    []InputVal `json:"inputs,omitempty"`
	Reached   []string   `json:"reached,omitempty"`
	Observed  []string   `json:"observed,omitempty"`
}

type Result struct {
	Harness     string
	Paths       int
	Completed   int // paths that ran to the end of the harness
	Pruned      int // assume-false / infeasible
	Blocked     int
	BoundHit    []string // bound exceeded reasons (fail closed)
	Unsupported []string
	Internal    []string
	Unknowns    int
	Obligations int
	ObligSat    int
	Violations  []Violation
	Reached     map[string]int
	Solver      SolverStats
	Steps       int64
	MaxDepth    int
	MaxSteps    int64
	Seconds     float64
	Samples     []PathSample
	Truncated   bool
	Ends        map[string]int
	MaxAlloc    int64
	Expected    map[string]bool
	Models      [][]InputVal // input models of completed paths (for the differential self-check)
}

func (r *Result) OK() bool {
	return len(r.Violations) == 0 && len(r.BoundHit) == 0 && len(r.Unsupported) == 0 && len(r.Internal) == 0 && r.Unknowns == 0 && !r.Truncated
}

type workItem struct {
	prefix []Decision
}

// Explore runs harness fn over all paths.
func (w *World) Explore(fn *ssa.Function, opt Options) *Result {
	t0 := time.Now()
	res := &Result{Harness: fn.String(), Reached: map[string]int{}, Ends: map[string]int{}, Expected: map[string]bool{}}
	if opt.Workers <= 0 {
		opt.Workers = 1
	}
	if opt.MaxSteps == 0 {
		opt.MaxSteps = 150_000_000
	}
	if opt.MaxDecisions == 0 {
		opt.MaxDecisions = 4000
	}
	if opt.MaxPaths == 0 {
		opt.MaxPaths = 2_000_000
	}
	if opt.MaxViolations == 0 {
		opt.MaxViolations = 8
	}
	if opt.TimeoutMS == 0 {
		opt.TimeoutMS = 20000
	}
	if opt.SolverKind == "" {
		opt.SolverKind = "z3"
	}
	if opt.MaxSamples == 0 {
		opt.MaxSamples = 6
	}

	var mu sync.Mutex
	cond := sync.NewCond(&mu)
	work := []workItem{{}}
	active := 0
	stop := false
	seenViol := map[string]bool{}

	worker := func(id int) {
		sol, err := NewSolver(opt.SolverKind, opt.TimeoutMS)
		if err != nil {
			mu.Lock()
			res.Internal = append(res.Internal, "solver start: "+err.Error())
			stop = true
			cond.Broadcast()
			mu.Unlock()
			return
		}
		defer sol.Close()
		if opt.SolverLogDir != "" {
			f, _ := os.Create(fmt.Sprintf("%s/solver-%d.smt2", opt.SolverLogDir, id))
			if f != nil {
				sol.Log = f
				defer f.Close()
			}
		}
		for {
			mu.Lock()
			for len(work) == 0 && active > 0 && !stop {
				cond.Wait()
			}
			if stop || (len(work) == 0 && active == 0) {
				cond.Broadcast()
				mu.Unlock()
				break
			}
			// depth-first: take the most recent
			it := work[len(work)-1]
			work = work[:len(work)-1]
			active++
			mu.Unlock()

			pr := w.runPath(fn, sol, it.prefix, opt)

			mu.Lock()
			active--
			res.Paths++
			res.Steps += pr.steps
			if pr.steps > res.MaxSteps {
				res.MaxSteps = pr.steps
			}
			if pr.maxDepth > res.MaxDepth {
				res.MaxDepth = pr.maxDepth
			}
			if pr.allocs > res.MaxAlloc {
				res.MaxAlloc = pr.allocs
			}
			res.Unknowns += pr.path.Unknowns
			res.Obligations += pr.path.Obligs
			res.ObligSat += pr.path.ObligSat
			for l := range pr.path.Reached {
				res.Reached[l]++
			}
			for _, l := range pr.path.Expected {
				res.Expected[l] = true
			}
			if pr.inputs != nil && len(res.Models) < opt.MaxModels {
				res.Models = append(res.Models, pr.inputs)
			}
			end := pr.end
			key := end
			if i := strings.Index(key, ":"); i > 0 {
				key = key[:i]
			}
			res.Ends[key]++
			switch {
			case end == "done":
				res.Completed++
			case end == "assume-false" || end == "infeasible":
				res.Pruned++
			case end == "violation" || end == "violation-limit":
			case strings.HasPrefix(end, "blocked"):
				res.Blocked++
			case strings.HasPrefix(end, "bound"):
				if len(res.BoundHit) < 10 {
					res.BoundHit = append(res.BoundHit, end)
				} else {
					res.BoundHit[9] = "(more)"
				}
			case strings.HasPrefix(end, "unsupported"):
				if len(res.Unsupported) < 10 && !contains(res.Unsupported, end) {
					res.Unsupported = append(res.Unsupported, end)
				}
			case strings.HasPrefix(end, "panic"):
			default:
				if len(res.Internal) < 10 && !contains(res.Internal, end) {
					res.Internal = append(res.Internal, end)
				}
			}
			for _, v := range pr.path.Violations {
				k := v.Kind + "|" + v.Label + "|" + strings.Join(v.Regions, ",")
				v.Harness = fn.Name()
				if !seenViol[k] {
					seenViol[k] = true
					res.Violations = append(res.Violations, v)
				} else if !v.Scheduled {
					// prefer a counterexample that needs no particular schedule (it replays natively)
					for i := range res.Violations {
						o := &res.Violations[i]
						if o.Scheduled && o.Kind+"|"+o.Label+"|"+strings.Join(o.Regions, ",") == k {
							*o = v
							break
						}
					}
				}
			}
			if len(res.Samples) < opt.MaxSamples && (end == "done" || len(pr.path.Violations) > 0) {
				s := PathSample{Decisions: len(pr.path.Trace), End: end, Inputs: pr.inputs, Observed: pr.path.Observed}
				for l := range pr.path.Reached {
					s.Reached = append(s.Reached, l)
				}
				sort.Strings(s.Reached)
				res.Samples = append(res.Samples, s)
			}
			for _, nw := range pr.path.NewWork {
				work = append(work, workItem{prefix: nw})
			}
			if res.Paths >= opt.MaxPaths || (!opt.Deadline.IsZero() && time.Now().After(opt.Deadline)) {
				if len(work) > 0 || active > 0 {
					res.Truncated = true
				}
				stop = true
			}
			if len(res.Internal) > 0 {
				stop = true
			}
			cond.Broadcast()
			mu.Unlock()
		}
		mu.Lock()
		res.Solver.Add(sol.Stats)
		mu.Unlock()
	}
	progDone := make(chan struct{})
	if opt.Progress {
		go func() {
			tk := time.NewTicker(15 * time.Second)
			defer tk.Stop()
			for {
				select {
				case <-progDone:
					return
				case <-tk.C:
					mu.Lock()
					fmt.Fprintf(os.Stderr, "[progress %s %.0fs] paths=%d completed=%d queue=%d active=%d viol=%d ends=%v\n", fn.Name(), time.Since(t0).Seconds(), res.Paths, res.Completed, len(work), active, len(res.Violations), res.Ends)
					mu.Unlock()
				}
			}
		}()
	}
	var wg sync.WaitGroup
	for i := 0; i < opt.Workers; i++ {
		wg.Add(1)
		go func(id int) { defer wg.Done(); worker(id) }(i)
	}
	wg.Wait()
	close(progDone)
	if stop && len(work) > 0 {
		res.Truncated = true
	}
	res.Seconds = time.Since(t0).Seconds()
	return res
}

func contains(ss []string, s string) bool {
	for _, x := range ss {
		if x == s {
			return true
		}
	}
	return false
}

type pathResult struct {
	path     *Path
	end      string
	steps    int64
	maxDepth int
	inputs   []InputVal
	allocs   int64
}

// runPath executes one path.
func (w *World) runPath(fn *ssa.Function, sol *Solver, prefix []Decision, opt Options) (pr pathResult) {
	tt := NewTermTab()
	sol.ResetPath()
	sol.SetTimeout(opt.TimeoutMS)
	sol.Push()
	lim := Limits{MaxSteps: opt.MaxSteps, MaxDecisions: opt.MaxDecisions, MaxViolation: opt.MaxViolations}
	p := NewPath(tt, sol, prefix, lim)
	m := w.newMachine(tt, p)
	m.trace = opt.Trace
	pr.path = p
	if opt.Progress {
		sol.OnSlow = func(dt float64, r SatResult) {
			fmt.Fprintf(os.Stderr, "[slow-query %.1fs %s] %s\n", dt, r, m.stackString())
		}
	}
	pr.end = w.execute(m, fn)
	pr.steps = m.steps
	pr.maxDepth = m.maxDep
	pr.allocs = m.allocs
	if pr.end == "done" && opt.MaxSamples > 0 {
		// a model of the completed path, for evidence samples (cheap: one query) — only for the
		// first few paths of each worker
		if opt.MaxModels > 0 && (sol.Stats.Queries < 200 || sol.Stats.Queries%37 == 0) {
			if in, ok := p.InputModel(); ok {
				pr.inputs = in
			}
		}
	}
	sol.ResetPath()
	return
}

func (w *World) newMachine(tt *TermTab, p *Path) *Machine {
	m := &Machine{fnSeen: map[*ssa.Function]bool{}, preemptAt: -1, prog: w.Prog, world: w, globals: map[*ssa.Global]*value{}, tt: tt, path: p,
		models: map[any]any{}, fmtMemo: map[string]value{}, clock: 1_000_000_000, inited: map[*ssa.Package]bool{}, fpMemo: map[fpKey]*Term{}, fpOrigin: map[*Term]*Term{}, pools: map[*value][]value{}}
	m.initSched()
	return m
}

// execute runs init + harness and classifies how the path ended.
func (w *World) execute(m *Machine, fn *ssa.Function) (end string) {
	defer func() {
		r := recover()
		func() {
			defer func() { recover() }()
			m.shutdown()
		}()
		w.noteFuncs(m.fnSeen)
		if r == nil {
			return
		}
		switch r := r.(type) {
		case pathEnd:
			end = r.reason
			if strings.HasPrefix(end, "blocked") {
				// every goroutine is blocked and no timer is pending: a deadlock of the target on a
				// feasible path is an obligation like a panic
				func() {
					defer func() {
						if x := recover(); x != nil {
							if pe, ok := x.(pathEnd); ok && pe.reason == "violation-limit" {
								end = pe.reason
							}
						}
					}()
					m.path.violation("blocked", "no-deadlock", r.reason+" @ "+m.stackString(), m)
				}()
			}
		case targetPanic:
			// An unrecovered panic of the target program on a feasible path.
			func() {
				defer func() {
					if x := recover(); x != nil {
						if pe, ok := x.(pathEnd); ok {
							end = pe.reason
						}
					}
				}()
				m.path.violation("panic", "no-panic", r.msg+" @ "+r.stack, m)
			}()
			if end == "" {
				end = "panic: " + r.msg
			}
		case internalErr:
			end = fmt.Sprintf("internal: %v @ %s\n%s", r.v, r.stack, r.gostack)
		default:
			end = fmt.Sprintf("internal: %v @ %s\n%s", r, m.stackString(), trimStack(string(debug.Stack())))
		}
	}()
	if fn.Pkg != nil {
		m.ensureInit(fn.Pkg)
	}
	m.call(nil, token.NoPos, fn, nil)
	return "done"
}

func trimStack(s string) string {
	lines := strings.Split(s, "\n")
	var out []string
	for _, l := range lines {
		if strings.Contains(l, "gosym/exec") && strings.Contains(l, ".go:") {
			out = append(out, strings.TrimSpace(l))
		}
		if len(out) > 12 {
			break
		}
	}
	return strings.Join(out, "\n")
}

// RunPinned executes the harness on a concrete input vector without a solver; used for the
// differential self-check of the executor against the native build.
func (w *World) RunPinned(fn *ssa.Function, vec []InputVal, opt Options) (end string, p *Path) {
	tt := NewTermTab()
	lim := Limits{MaxSteps: max64(opt.MaxSteps, 50_000_000), MaxDecisions: 1 << 30, MaxViolation: 8}
	p = NewPinnedPath(tt, vec, lim)
	m := w.newMachine(tt, p)
	end = w.execute(m, fn)
	return
}

func max64(a, b int64) int64 {
	if a > b {
		return a
	}
	return b
}
