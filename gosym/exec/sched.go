package exec

// Cooperative, deterministic model of goroutines, channels, select and timers.
//
// A `go` statement creates a coroutine (a real host goroutine that only runs while it holds the
// baton). The running coroutine keeps the baton until it blocks (channel operation that cannot
// proceed, mutex held by another coroutine, WaitGroup.Wait, ...) or finishes; the scheduler then
// hands the baton to the next runnable coroutine in creation order. When every coroutine is
// blocked the earliest virtual timer fires; if there is none the path ends as "blocked".
// This gives ONE schedule per decision sequence; where several select cases are ready the choice
// is a recorded fork, so all of them are explored.

import (
	"fmt"
	"go/token"
	"go/types"

	"golang.org/x/tools/go/ssa"
)

type vchan struct {
	id      int
	buf     []value
	cap     int
	closed  bool
	waiting int // coroutines blocked receiving on an unbuffered channel
}

type coroutine struct {
	id    int
	wake  chan struct{}
	done  bool
	ready func() bool
	// yielding: inside yield(), waiting for the other coroutines to block or finish
	yielding bool
	name     string
	cur      *frame
	depth    int
}

type scheduler struct {
	cos     []*coroutine
	cur     *coroutine
	aborted bool
	abortV  any
	nchan   int
	exited  chan struct{}
	live    int
}

type vtimer struct {
	when   int64
	ch     *vchan
	fn     value // AfterFunc callback
	active bool
	cell   *value // the *time.Timer cell (identity)
	period int64
}

func (m *Machine) initSched() {
	main := &coroutine{id: 0, wake: make(chan struct{}, 1), name: "main"}
	m.sched = &scheduler{cos: []*coroutine{main}, cur: main}
}

func (m *Machine) newChan(n int) *vchan {
	m.sched.nchan++
	return &vchan{id: m.sched.nchan, cap: n}
}

// spawn creates a coroutine that will run fn(args) when scheduled.
func (m *Machine) spawn(fn value, args []value, pos token.Pos) {
	s := m.sched
	co := &coroutine{id: len(s.cos), wake: make(chan struct{}, 1), name: fmt.Sprint(fn)}
	s.cos = append(s.cos, co)
	s.live++
	go func() {
		<-co.wake
		defer func() {
			r := recover()
			co.done = true
			s.live--
			if r != nil {
				// Engine-level unwinding or an unrecovered target panic inside a goroutine:
				// hand it to the main coroutine, which re-raises it.
				if !s.aborted {
					s.aborted = true
					s.abortV = r
				}
			}
			if s.aborted {
				m.abortWakeNext(co)
				return
			}
			// pass the baton
			next := m.pickNext(co)
			if next == nil {
				// everyone else is blocked: deadlock unless a timer can fire
				s.aborted = true
				s.abortV = pathEnd{"blocked: all coroutines blocked after goroutine exit"}
				m.abortWakeNext(co)
				return
			}
			s.cur = next
			m.cur = next.cur
			m.depth = next.depth
			next.wake <- struct{}{}
		}()
		if s.aborted {
			panic(pathEnd{"aborted"})
		}
		m.cur = nil
		m.depth = 0
		m.call(nil, pos, fn, args)
	}()
}

// abortWakeNext wakes the next not-yet-finished coroutine so it can unwind.
func (m *Machine) abortWakeNext(from *coroutine) {
	s := m.sched
	for _, co := range s.cos {
		if co != from && !co.done && co.id != 0 {
			s.cur = co
			co.wake <- struct{}{}
			return
		}
	}
	// only main left
	s.cur = s.cos[0]
	s.cos[0].wake <- struct{}{}
}

// pickNext returns the next runnable coroutine after from (round robin), firing virtual timers
// if all are blocked. Returns nil on deadlock.
func (m *Machine) pickNext(from *coroutine) *coroutine {
	s := m.sched
	for round := 0; round < 1000; round++ {
		n := len(s.cos)
		for k := 1; k <= n; k++ {
			co := s.cos[(from.id+k)%n]
			if co.done {
				continue
			}
			if co == from && from.done {
				continue
			}
			if co.ready == nil || co.ready() {
				return co
			}
		}
		if !m.fireNextTimer() {
			return nil
		}
	}
	return nil
}

// block suspends the current coroutine until ready() holds.
func (m *Machine) block(ready func() bool, what string) {
	s := m.sched
	me := s.cur
	for !ready() {
		me.ready = ready
		next := m.pickNext(me)
		if next == nil {
			me.ready = nil
			m.path.end("blocked: " + what)
		}
		if next == me {
			continue
		}
		me.cur = m.cur
		me.depth = m.depth
		s.cur = next
		m.cur = next.cur
		m.depth = next.depth
		next.wake <- struct{}{}
		<-me.wake
		if s.aborted {
			if me.id == 0 {
				// main re-raises after all others have unwound
				m.drainAborted()
				v := s.abortV
				panic(v)
			}
			panic(pathEnd{"aborted"})
		}
		m.cur = me.cur
		m.depth = me.depth
	}
	me.ready = nil
}

// yield lets the other coroutines run until none of them is runnable (runtime.Gosched and the
// quiescence points of the harness intrinsics): every other coroutine is blocked or finished when
// it returns. Virtual time does not advance here.
func (m *Machine) yield() {
	s := m.sched
	me := s.cur
	// A coroutine inside yield waits until no OTHER coroutine is runnable; coroutines that are
	// themselves waiting in yield do not count (two yielders would otherwise wait for each other),
	// except on the first evaluation, which hands control to any runnable coroutine at least once.
	me.yielding = true
	first := true
	m.block(func() bool {
		for _, co := range s.cos {
			if co == me || co.done {
				continue
			}
			if co.yielding && !first {
				continue
			}
			if co.ready == nil || co.ready() {
				first = false
				return false
			}
		}
		first = false
		return true
	}, "yield")
	me.yielding = false
}

// drainAborted makes every remaining coroutine unwind.
func (m *Machine) drainAborted() {
	s := m.sched
	for _, co := range s.cos {
		if co.id != 0 && !co.done {
			s.cur = co
			co.wake <- struct{}{}
			<-s.cos[0].wake
		}
	}
}

// shutdown is called by the main coroutine when the path ends (normally or not) to unwind all
// other coroutines so that no host goroutine leaks.
func (m *Machine) shutdown() {
	s := m.sched
	if s == nil {
		return
	}
	s.aborted = true
	if s.abortV == nil {
		s.abortV = pathEnd{"shutdown"}
	}
	for _, co := range s.cos {
		if co.id != 0 && !co.done {
			s.cur = co
			co.wake <- struct{}{}
			<-s.cos[0].wake
		}
	}
}

// runAll runs until every other coroutine is finished or blocked (used by harness intrinsic
// vsymQuiesce).
func (m *Machine) quiesce() {
	m.yield()
}

// ---- channel operations ----

func (m *Machine) chanSend(ch *vchan, v value) {
	if ch == nil {
		m.block(func() bool { return false }, "send on nil channel")
	}
	if ch.closed {
		panic(targetPanic{v: iface{t: types.Typ[types.String], v: "send on closed channel"}, runtime: true, msg: "send on closed channel", stack: m.stackString()})
	}
	v = copyVal(v)
	if ch.cap > 0 {
		m.block(func() bool { return len(ch.buf) < ch.cap || ch.closed }, "chan send")
		if ch.closed {
			m.runtimePanic("send on closed channel")
		}
		ch.buf = append(ch.buf, v)
		return
	}
	// unbuffered: hand off and wait until taken
	ch.buf = append(ch.buf, v)
	m.block(func() bool { return len(ch.buf) == 0 }, "unbuffered chan send")
}

func (m *Machine) chanRecv(ch *vchan, commaOk bool, et types.Type) value {
	if ch == nil {
		m.block(func() bool { return false }, "receive from nil channel")
	}
	if len(ch.buf) == 0 && !ch.closed {
		ch.waiting++
		m.block(func() bool { return len(ch.buf) > 0 || ch.closed }, "chan recv")
		ch.waiting--
	}
	var v value
	ok := true
	if len(ch.buf) > 0 {
		v = ch.buf[0]
		ch.buf = append([]value(nil), ch.buf[1:]...)
	} else {
		v = m.zero(et)
		ok = false
	}
	if commaOk {
		return tuple{v, m.tt.Bool(ok)}
	}
	return v
}

func (m *Machine) chanClose(ch *vchan) {
	if ch == nil {
		m.runtimePanic("close of nil channel")
	}
	if ch.closed {
		m.runtimePanic("close of closed channel")
	}
	ch.closed = true
}

func (m *Machine) doSelect(fr *frame, instr *ssa.Select) value {
	type scase struct {
		ch   *vchan
		send bool
		val  value
	}
	cases := make([]scase, len(instr.States))
	for i, st := range instr.States {
		c := scase{ch: fr.get(st.Chan).(*vchan), send: st.Dir == types.SendOnly}
		if st.Send != nil {
			c.val = fr.get(st.Send)
		}
		cases[i] = c
	}
	isReady := func(c scase) bool {
		if c.ch == nil {
			return false
		}
		if c.send {
			if c.ch.closed {
				return true // will panic
			}
			if c.ch.cap > 0 {
				return len(c.ch.buf) < c.ch.cap
			}
			return c.ch.waiting > 0 && len(c.ch.buf) == 0
		}
		return len(c.ch.buf) > 0 || c.ch.closed
	}
	readySet := func() []int {
		var r []int
		for i, c := range cases {
			if isReady(c) {
				r = append(r, i)
			}
		}
		return r
	}
	rs := readySet()
	if len(rs) == 0 {
		if !instr.Blocking {
			return m.selectResult(instr, -1, false, nil)
		}
		for _, c := range cases {
			if !c.send && c.ch != nil {
				c.ch.waiting++
			}
		}
		m.block(func() bool { return len(readySet()) > 0 }, "select")
		for _, c := range cases {
			if !c.send && c.ch != nil {
				c.ch.waiting--
			}
		}
		rs = readySet()
	}
	pick := rs[0]
	if len(rs) > 1 {
		pick = rs[m.path.ForkChoice(len(rs), "select")]
	}
	c := cases[pick]
	if c.send {
		if c.ch.closed {
			m.runtimePanic("send on closed channel")
		}
		c.ch.buf = append(c.ch.buf, copyVal(c.val))
		return m.selectResult(instr, pick, false, nil)
	}
	if len(c.ch.buf) > 0 {
		v := c.ch.buf[0]
		c.ch.buf = append([]value(nil), c.ch.buf[1:]...)
		return m.selectResult(instr, pick, true, v)
	}
	return m.selectResult(instr, pick, false, nil)
}

func (m *Machine) selectResult(instr *ssa.Select, chosen int, recvOk bool, recv value) value {
	r := tuple{m.tt.Const(64, uint64(int64(chosen))), m.tt.Bool(recvOk)}
	for i, st := range instr.States {
		if st.Dir == types.RecvOnly {
			var v value
			if i == chosen && recvOk {
				v = recv
			} else {
				v = m.zero(st.Chan.Type().Underlying().(*types.Chan).Elem())
			}
			r = append(r, v)
		}
	}
	return r
}

// ---- virtual time ----

func (m *Machine) fireNextTimer() bool {
	var best *vtimer
	for _, t := range m.timers {
		if t.active && (best == nil || t.when < best.when) {
			best = t
		}
	}
	if best == nil {
		return false
	}
	if best.when > m.clock {
		m.clock = best.when
	}
	m.fire(best)
	return true
}

func (m *Machine) fire(t *vtimer) {
	t.active = false
	if t.period > 0 {
		t.when += t.period
		t.active = true
	}
	if t.fn != nil {
		m.spawn(t.fn, nil, token.NoPos)
		return
	}
	if t.ch != nil && len(t.ch.buf) < t.ch.cap {
		t.ch.buf = append(t.ch.buf, m.timeValue(m.clock))
	}
}

// advanceClock moves virtual time forward by d the way a testing/synctest bubble does: time only
// moves while every coroutine is blocked. First the other coroutines run to quiescence at the
// current instant; then the due timers fire one at a time in order, each followed by a run to
// quiescence at that instant (so timers created by the woken coroutines are relative to it).
func (m *Machine) advanceClock(d int64) {
	target := m.clock + d
	m.yield()
	for {
		var best *vtimer
		for _, t := range m.timers {
			if t.active && t.when <= target && (best == nil || t.when < best.when) {
				best = t
			}
		}
		if best == nil {
			break
		}
		if best.when > m.clock {
			m.clock = best.when
		}
		m.fire(best)
		m.yield()
	}
	m.clock = target
}

// ForkChoice is a solver-free n-way fork (used for select with several ready cases).
func (p *Path) ForkChoice(n int, why string) int {
	if n <= 1 {
		return 0
	}
	if p.isPinned {
		return 0
	}
	if p.pos < len(p.prefix) {
		d := p.prefix[p.pos]
		p.pos++
		p.Trace = append(p.Trace, d)
		return int(d.Val)
	}
	if len(p.Trace) >= p.limits.MaxDecisions {
		p.end("bound: decision limit")
	}
	for i := 1; i < n; i++ {
		alt := append(append([]Decision(nil), p.Trace...), Decision{Taken: true, HasVal: true, Val: uint64(i), Forced: true})
		p.NewWork = append(p.NewWork, alt)
	}
	p.Trace = append(p.Trace, Decision{Taken: true, HasVal: true, Val: 0, Forced: true})
	return 0
}
