package exec

// Solver: one long-lived SMT solver process spoken to over stdin/stdout in SMT-LIB2.

import (
	"bufio"
	"fmt"
	"io"
	"os/exec"
	"strconv"
	"strings"
	"time"
)

type SatResult int

const (
	Unsat SatResult = iota
	Sat
	Unknown
)

func (r SatResult) String() string {
	switch r {
	case Unsat:
		return "unsat"
	case Sat:
		return "sat"
	}
	return "unknown"
}

type SolverStats struct {
	Queries  int
	SatN     int
	UnsatN   int
	UnknownN int
	Errors   int
	Seconds  float64
	MaxQuery float64
	Retried  int // queries re-run through the qfbv tactic after the incremental core gave up
}

func (s *SolverStats) Add(o SolverStats) {
	s.Queries += o.Queries
	s.SatN += o.SatN
	s.UnsatN += o.UnsatN
	s.UnknownN += o.UnknownN
	s.Errors += o.Errors
	s.Retried += o.Retried
	s.Seconds += o.Seconds
	if o.MaxQuery > s.MaxQuery {
		s.MaxQuery = o.MaxQuery
	}
}

type Solver struct {
	Kind      string // "z3", "z3-new", "cvc5"
	cmd       *exec.Cmd
	in        io.WriteCloser
	bw        *bufio.Writer
	out       *bufio.Reader
	defined   map[uint32]bool
	Stats     SolverStats
	timeoutMS int
	dead      bool
	LastErr   string
	Log       io.Writer // optional transcript
	depth     int
	OnSlow    func(dt float64, res SatResult)
	fpSeen    bool // the current path has floating-point terms: use the qffpbv tactic (z3's incremental core is weak on FP)
}

func NewSolver(kind string, timeoutMS int) (*Solver, error) {
	var cmd *exec.Cmd
	switch kind {
	case "z3":
		cmd = exec.Command("z3", "-in", "-smt2")
	case "z3-new":
		cmd = exec.Command("z3-new", "-in", "-smt2")
	case "cvc5":
		cmd = exec.Command("cvc5", "--incremental", "--lang=smt2", "--produce-models", fmt.Sprintf("--tlimit-per=%d", timeoutMS))
	default:
		return nil, fmt.Errorf("unknown solver %q", kind)
	}
	in, err := cmd.StdinPipe()
	if err != nil {
		return nil, err
	}
	out, err := cmd.StdoutPipe()
	if err != nil {
		return nil, err
	}
	cmd.Stderr = cmd.Stdout
	if err := cmd.Start(); err != nil {
		return nil, err
	}
	s := &Solver{Kind: kind, cmd: cmd, in: in, bw: bufio.NewWriterSize(in, 1<<16), out: bufio.NewReaderSize(out, 1<<16), defined: map[uint32]bool{}, timeoutMS: timeoutMS}
	if kind == "cvc5" {
		s.send("(set-logic ALL)\n")
	} else {
		s.send(fmt.Sprintf("(set-option :timeout %d)\n", timeoutMS))
	}
	s.send("(set-option :produce-models true)\n")
	return s, nil
}

// SetTimeout changes the per-query timeout (harnesses with floating-point obligations ask for more).
func (s *Solver) SetTimeout(ms int) {
	if ms == s.timeoutMS {
		return
	}
	s.timeoutMS = ms
	if s.Kind != "cvc5" {
		s.send(fmt.Sprintf("(set-option :timeout %d)\n", ms))
	}
}

func (s *Solver) send(text string) {
	if s.dead {
		return
	}
	if s.Log != nil {
		io.WriteString(s.Log, text)
	}
	if _, err := s.bw.WriteString(text); err != nil {
		s.dead = true
		s.LastErr = err.Error()
	}
}

func (s *Solver) flush() {
	if err := s.bw.Flush(); err != nil {
		s.dead = true
		s.LastErr = err.Error()
	}
}

func (s *Solver) Close() {
	if s.cmd != nil {
		s.send("(exit)\n")
		s.flush()
		s.in.Close()
		done := make(chan struct{})
		go func() { s.cmd.Wait(); close(done) }()
		select {
		case <-done:
		case <-time.After(2 * time.Second):
			s.cmd.Process.Kill()
		}
		s.cmd = nil
	}
}

// readLine reads one non-empty line of solver output.
func (s *Solver) readLine() (string, error) {
	for {
		line, err := s.out.ReadString('\n')
		if err != nil {
			s.dead = true
			return "", err
		}
		line = strings.TrimSpace(line)
		if line != "" {
			if s.Log != nil {
				fmt.Fprintf(s.Log, "; <- %s\n", line)
			}
			return line, nil
		}
	}
}

// sync drains output until the echo marker, returning the lines seen before it.
func (s *Solver) sync() []string {
	s.send("(echo \"@@sync\")\n")
	s.flush()
	var lines []string
	for {
		l, err := s.readLine()
		if err != nil {
			return lines
		}
		if strings.Contains(l, "@@sync") {
			return lines
		}
		lines = append(lines, l)
	}
}

// Push opens a new assertion scope. Definitions emitted inside are forgotten at Pop.
func (s *Solver) Push() {
	s.send("(push 1)\n")
	s.depth++
}

func (s *Solver) Pop() {
	s.send("(pop 1)\n")
	s.depth--
}

// ResetPath clears everything asserted for the current path (depth back to 0) and the
// definition cache.
func (s *Solver) ResetPath() {
	for s.depth > 0 {
		s.Pop()
	}
	s.defined = map[uint32]bool{}
	s.fpSeen = false
}

// Define makes sure t (and its sub-terms) are defined at the current scope and returns its
// reference. Must not be called inside an inner (query) scope whose definitions are popped
// while the cache persists; Check handles that ordering.
func (s *Solver) Define(t *Term) string {
	var sb strings.Builder
	r := Emit(&sb, t, s.defined)
	if sb.Len() > 0 {
		txt := sb.String()
		if !s.fpSeen && (strings.Contains(txt, "fp.") || strings.Contains(txt, "to_fp")) {
			s.fpSeen = true
		}
		s.send(txt)
	}
	return r
}

func (s *Solver) Assert(t *Term) {
	r := s.Define(t)
	s.send("(assert " + r + ")\n")
}

// Check asks whether the current assertions together with extra are satisfiable.
func (s *Solver) Check(extra ...*Term) SatResult {
	refs := make([]string, len(extra))
	for i, t := range extra {
		refs[i] = s.Define(t)
	}
	if len(extra) > 0 {
		s.send("(push 1)\n")
		for _, r := range refs {
			s.send("(assert " + r + ")\n")
		}
	}
	res := s.checkSat()
	if len(extra) > 0 {
		s.send("(pop 1)\n")
	}
	return res
}

// CheckKeep is like Check but on Sat leaves the inner scope open so that a model can be read;
// the caller must call EndKeep afterwards.
func (s *Solver) CheckKeep(extra ...*Term) SatResult {
	refs := make([]string, len(extra))
	for i, t := range extra {
		refs[i] = s.Define(t)
	}
	s.send("(push 1)\n")
	for _, r := range refs {
		s.send("(assert " + r + ")\n")
	}
	return s.checkSat()
}

func (s *Solver) EndKeep() { s.send("(pop 1)\n") }

func (s *Solver) checkSat() SatResult {
	if s.dead {
		s.Stats.Queries++
		s.Stats.UnknownN++
		return Unknown
	}
	t0 := time.Now()
	res, sawErr := Unknown, false
	if s.Kind == "cvc5" {
		res, sawErr = s.checkOnce("(check-sat)\n")
	} else if s.fpSeen {
		res, sawErr = s.checkOnce(fmt.Sprintf("(check-sat-using (try-for qffpbv %d))\n", s.timeoutMS))
	} else {
		// z3's incremental core has no bit-vector preprocessing: a query it cannot finish quickly is
		// retried once through the qfbv tactic (a fresh, fully preprocessing solver over the same
		// assertion stack), which typically answers in milliseconds what the core times out on.
		quick := 2000
		if s.timeoutMS < quick {
			quick = s.timeoutMS
		}
		s.send(fmt.Sprintf("(set-option :timeout %d)\n", quick))
		res, sawErr = s.checkOnce("(check-sat)\n")
		s.send(fmt.Sprintf("(set-option :timeout %d)\n", s.timeoutMS))
		if res == Unknown && !sawErr {
			s.Stats.Retried++
			res, sawErr = s.checkOnce(fmt.Sprintf("(check-sat-using (try-for qfbv %d))\n", s.timeoutMS))
		}
	}
	if sawErr {
		res = Unknown
		s.Stats.Errors++
	}
	dt := time.Since(t0).Seconds()
	s.Stats.Queries++
	s.Stats.Seconds += dt
	if dt > s.Stats.MaxQuery {
		s.Stats.MaxQuery = dt
	}
	if dt > 3 && s.OnSlow != nil {
		s.OnSlow(dt, res)
	}
	switch res {
	case Sat:
		s.Stats.SatN++
	case Unsat:
		s.Stats.UnsatN++
	default:
		s.Stats.UnknownN++
	}
	return res
}

// checkOnce issues one check command and classifies the answer.
func (s *Solver) checkOnce(cmd string) (SatResult, bool) {
	s.send(cmd)
	res := Unknown
	sawErr := false
	for _, l := range s.sync() {
		switch {
		case l == "sat":
			res = Sat
		case l == "unsat":
			res = Unsat
		case l == "unknown" || strings.HasPrefix(l, "timeout"):
			res = Unknown
		case strings.Contains(l, "(error") || strings.Contains(l, "error"):
			sawErr = true
			s.LastErr = l
		}
	}
	return res, sawErr
}

// Values reads the model values of the given variables/terms after a Sat answer.
func (s *Solver) Values(ts []*Term) (map[*Term]uint64, error) {
	out := make(map[*Term]uint64, len(ts))
	if len(ts) == 0 {
		return out, nil
	}
	// Only variables and already defined terms may be queried here (no new definitions are
	// emitted to keep scopes consistent); constants are answered locally.
	var names []string
	var idx []*Term
	for _, t := range ts {
		if t.IsConst() {
			out[t] = t.K
			continue
		}
		if !s.defined[t.id] {
			// A variable never mentioned in any assertion is unconstrained: 0.
			out[t] = 0
			continue
		}
		names = append(names, ref(t))
		idx = append(idx, t)
	}
	for start := 0; start < len(names); start += 200 {
		end := start + 200
		if end > len(names) {
			end = len(names)
		}
		s.send("(get-value (" + strings.Join(names[start:end], " ") + "))\n")
		lines := s.sync()
		text := strings.Join(lines, " ")
		if strings.Contains(text, "(error") {
			return nil, fmt.Errorf("get-value: %s", text)
		}
		vals, err := parseValues(text)
		if err != nil {
			return nil, err
		}
		if len(vals) != end-start {
			return nil, fmt.Errorf("get-value: expected %d values, got %d in %q", end-start, len(vals), text)
		}
		for i, v := range vals {
			out[idx[start+i]] = v
		}
	}
	return out, nil
}

// parseValues parses "((name val) (name val) ...)" returning the values in order.
func parseValues(text string) ([]uint64, error) {
	toks := tokenize(text)
	var vals []uint64
	// Expect: ( ( name val ) ( name val ) ... )
	i := 0
	if i >= len(toks) || toks[i] != "(" {
		return nil, fmt.Errorf("parseValues: bad start in %q", text)
	}
	i++
	for i < len(toks) && toks[i] == "(" {
		i++
		// name may itself be an s-expression? We only query symbols.
		i++ // name
		v, n, err := parseVal(toks[i:])
		if err != nil {
			return nil, err
		}
		vals = append(vals, v)
		i += n
		if i >= len(toks) || toks[i] != ")" {
			return nil, fmt.Errorf("parseValues: expected ) in %q", text)
		}
		i++
	}
	return vals, nil
}

func parseVal(toks []string) (uint64, int, error) {
	if len(toks) == 0 {
		return 0, 0, fmt.Errorf("parseVal: empty")
	}
	t := toks[0]
	switch {
	case t == "true":
		return 1, 1, nil
	case t == "false":
		return 0, 1, nil
	case strings.HasPrefix(t, "#x"):
		v, err := strconv.ParseUint(t[2:], 16, 64)
		return v, 1, err
	case strings.HasPrefix(t, "#b"):
		v, err := strconv.ParseUint(t[2:], 2, 64)
		return v, 1, err
	case t == "(":
		// (_ bvN w)
		if len(toks) >= 5 && toks[1] == "_" && strings.HasPrefix(toks[2], "bv") {
			v, err := strconv.ParseUint(toks[2][2:], 10, 64)
			return v, 5, err
		}
	}
	return 0, 0, fmt.Errorf("parseVal: cannot parse %v", toks[:min(len(toks), 6)])
}

func tokenize(s string) []string {
	var toks []string
	cur := strings.Builder{}
	flush := func() {
		if cur.Len() > 0 {
			toks = append(toks, cur.String())
			cur.Reset()
		}
	}
	for _, r := range s {
		switch r {
		case '(', ')':
			flush()
			toks = append(toks, string(r))
		case ' ', '\t', '\n', '\r':
			flush()
		default:
			cur.WriteRune(r)
		}
	}
	flush()
	return toks
}
