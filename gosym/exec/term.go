package exec

// SMT term DAG with construction-time simplification.
//
// Every Go scalar (bool, integers of every width, uintptr, floats carried as their IEEE bit
// pattern) is a *Term. A concrete scalar is a constant Term, so concrete Go arithmetic is simply
// constant folding in the constructors below and symbolic arithmetic builds SMT-LIB2 bit-vector
// expressions with Go's wrap-around semantics.

import (
	"fmt"
	"math"
	"math/bits"
	"strings"
)

type Op uint8

const (
	OpConst Op = iota // bit-vector or bool constant (k)
	OpVar             // free variable (name)
	OpAdd
	OpSub
	OpMul
	OpUDiv
	OpSDiv
	OpURem
	OpSRem
	OpAnd
	OpOr
	OpXor
	OpNot // bvnot
	OpNeg
	OpShl
	OpLShr
	OpAShr
	OpConcat
	OpExtract // k = hi<<8|lo
	OpZExt    // to width w
	OpSExt
	OpIte
	OpEq
	OpULt
	OpULe
	OpSLt
	OpSLe
	OpBAnd
	OpBOr
	OpBNot
	OpFP // floating-point operation on IEEE bit patterns; name selects it
)

// Term is a hash-consed SMT expression. W is the bit width; W == 0 means sort Bool.
type Term struct {
	Op      Op
	W       uint8
	A, B, C *Term
	K       uint64
	Name    string
	id      uint32
}

type termKey struct {
	op      Op
	w       uint8
	a, b, c uint32
	k       uint64
	name    string
}

// TermTab is a per-path hash-consing table.
type TermTab struct {
	m      map[termKey]*Term
	nextID uint32
	nvars  int
	small  [4][]*Term // cached small constants for widths 8,16,32,64
	tru    *Term
	fls    *Term
	// Side constraints introduced by term construction (fresh variables pinned to FP results).
	Side []*Term
	// Vars in creation order.
	Vars []*Term
}

func NewTermTab() *TermTab {
	tt := &TermTab{m: make(map[termKey]*Term, 1024)}
	tt.tru = tt.mk(OpConst, 0, nil, nil, nil, 1, "")
	tt.fls = tt.mk(OpConst, 0, nil, nil, nil, 0, "")
	return tt
}

func tid(t *Term) uint32 {
	if t == nil {
		return 0
	}
	return t.id
}

func (tt *TermTab) mk(op Op, w uint8, a, b, c *Term, k uint64, name string) *Term {
	key := termKey{op, w, tid(a), tid(b), tid(c), k, name}
	if t, ok := tt.m[key]; ok {
		return t
	}
	tt.nextID++
	t := &Term{Op: op, W: w, A: a, B: b, C: c, K: k, Name: name, id: tt.nextID}
	tt.m[key] = t
	return t
}

func mask(w uint8) uint64 {
	if w >= 64 {
		return ^uint64(0)
	}
	return (uint64(1) << w) - 1
}

func widx(w uint8) int {
	switch w {
	case 8:
		return 0
	case 16:
		return 1
	case 32:
		return 2
	case 64:
		return 3
	}
	return -1
}

// Const returns the w-bit constant v (truncated).
func (tt *TermTab) Const(w uint8, v uint64) *Term {
	if w == 0 {
		return tt.Bool(v != 0)
	}
	v &= mask(w)
	if v < 260 {
		if i := widx(w); i >= 0 {
			if tt.small[i] == nil {
				tt.small[i] = make([]*Term, 260)
			}
			if t := tt.small[i][v]; t != nil {
				return t
			}
			t := tt.mk(OpConst, w, nil, nil, nil, v, "")
			tt.small[i][v] = t
			return t
		}
	}
	return tt.mk(OpConst, w, nil, nil, nil, v, "")
}

func (tt *TermTab) Bool(b bool) *Term {
	if b {
		return tt.tru
	}
	return tt.fls
}

// Var creates a fresh free variable.
func (tt *TermTab) Var(w uint8, hint string) *Term {
	tt.nvars++
	name := fmt.Sprintf("v%d_%s", tt.nvars, sanitize(hint))
	t := tt.mk(OpVar, w, nil, nil, nil, 0, name)
	tt.Vars = append(tt.Vars, t)
	return t
}

func sanitize(s string) string {
	var b strings.Builder
	for _, r := range s {
		if r >= 'a' && r <= 'z' || r >= 'A' && r <= 'Z' || r >= '0' && r <= '9' || r == '_' {
			b.WriteRune(r)
		} else {
			b.WriteByte('_')
		}
	}
	return b.String()
}

func (t *Term) IsConst() bool { return t.Op == OpConst }

// IsTrue / IsFalse for Bool constants.
func (t *Term) IsTrue() bool  { return t.Op == OpConst && t.W == 0 && t.K == 1 }
func (t *Term) IsFalse() bool { return t.Op == OpConst && t.W == 0 && t.K == 0 }

// SVal returns the constant's value sign-extended from its width.
func (t *Term) SVal() int64 {
	return sext(t.K, t.W)
}

func sext(v uint64, w uint8) int64 {
	if w >= 64 || w == 0 {
		return int64(v)
	}
	sh := 64 - uint(w)
	return int64(v<<sh) >> sh
}

// ---- bit-vector arithmetic ----

func (tt *TermTab) Bin(op Op, a, b *Term) *Term {
	if a.W != b.W {
		panic(fmt.Sprintf("Bin %d: width mismatch %d vs %d", op, a.W, b.W))
	}
	w := a.W
	if a.IsConst() && b.IsConst() {
		if v, ok := foldBin(op, w, a.K, b.K); ok {
			return tt.Const(w, v)
		}
	}
	switch op {
	case OpAdd:
		if a.IsConst() && a.K == 0 {
			return b
		}
		if b.IsConst() && b.K == 0 {
			return a
		}
		if a.IsConst() { // canonical: constant on the right
			a, b = b, a
		}
		// (x + c1) + c2
		if b.IsConst() && a.Op == OpAdd && a.B.IsConst() {
			return tt.Bin(OpAdd, a.A, tt.Const(w, a.B.K+b.K))
		}
		// float constants outward so that they keep folding along a chain: (x + c) + y = (x + y) + c
		if !b.IsConst() && a.Op == OpAdd && a.B.IsConst() {
			return tt.Bin(OpAdd, tt.Bin(OpAdd, a.A, b), a.B)
		}
		if !a.IsConst() && b.Op == OpAdd && b.B.IsConst() {
			return tt.Bin(OpAdd, tt.Bin(OpAdd, a, b.A), b.B)
		}
	case OpSub:
		if b.IsConst() && b.K == 0 {
			return a
		}
		if a == b {
			return tt.Const(w, 0)
		}
		if b.IsConst() {
			return tt.Bin(OpAdd, a, tt.Const(w, -b.K))
		}
	case OpMul:
		if a.IsConst() {
			a, b = b, a
		}
		if b.IsConst() {
			if b.K == 0 {
				return b
			}
			if b.K == 1 {
				return a
			}
		}
	case OpAnd:
		if a.IsConst() {
			a, b = b, a
		}
		if b.IsConst() {
			if b.K == 0 {
				return b
			}
			if b.K == mask(w) {
				return a
			}
			// zext(x) & m where m covers all of x's bits
			if a.Op == OpZExt && b.K&mask(a.A.W) == mask(a.A.W) {
				return a
			}
			// low-bit mask: and(x, 2^k-1) = zext(extract(k-1,0,x))
			if k := b.K; k&(k+1) == 0 {
				n := uint8(bits.Len64(k))
				return tt.ZExt(tt.Extract(a, n-1, 0), w)
			}
		}
		if a == b {
			return a
		}
	case OpOr:
		if a.IsConst() {
			a, b = b, a
		}
		if b.IsConst() {
			if b.K == 0 {
				return a
			}
			if b.K == mask(w) {
				return b
			}
		}
		if a == b {
			return a
		}
		// or(concat(x, 0_k), y) with y's high w-k bits known zero = concat(x, y[k-1:0])
		if b.Op == OpConcat && b.B.IsConst() && b.B.K == 0 && !(a.Op == OpConcat && a.B.IsConst() && a.B.K == 0 && a.B.W >= b.B.W) {
			a, b = b, a
		}
		if a.Op == OpConcat && a.B.IsConst() && a.B.K == 0 {
			k := a.B.W
			if highZeros(b) >= w-k {
				return tt.Concat(a.A, tt.Extract(b, k-1, 0))
			}
		}
	case OpXor:
		if a.IsConst() {
			a, b = b, a
		}
		if b.IsConst() && b.K == 0 {
			return a
		}
		if a == b {
			return tt.Const(w, 0)
		}
	case OpShl, OpLShr, OpAShr:
		if b.IsConst() {
			if b.K == 0 {
				return a
			}
			if b.K >= uint64(w) && op != OpAShr {
				return tt.Const(w, 0)
			}
			s := uint8(b.K)
			if op == OpLShr && b.K < uint64(w) {
				// lshr(x, s) = zext(extract(w-1, s, x))
				return tt.ZExt(tt.Extract(a, w-1, s), w)
			}
			if op == OpShl && b.K < uint64(w) {
				// shl(x, s) = concat(extract(w-1-s,0,x), 0_s)
				return tt.Concat(tt.Extract(a, w-1-s, 0), tt.Const(s, 0))
			}
		}
		if a.IsConst() && a.K == 0 {
			return a
		}
	case OpUDiv, OpURem, OpSDiv, OpSRem:
		if b.IsConst() && b.K == 1 {
			if op == OpUDiv || op == OpSDiv {
				return a
			}
			return tt.Const(w, 0)
		}
		if b.IsConst() && b.K != 0 && b.K&(b.K-1) == 0 {
			k := uint8(bits.TrailingZeros64(b.K))
			if op == OpUDiv {
				return tt.Bin(OpLShr, a, tt.Const(w, uint64(k)))
			}
			if op == OpURem {
				return tt.ZExt(tt.Extract(a, k-1, 0), w)
			}
		}
	}
	return tt.mk(op, w, a, b, nil, 0, "")
}

// highZeros returns a lower bound on the number of leading zero bits of t.
func highZeros(t *Term) uint8 {
	switch t.Op {
	case OpConst:
		if t.W == 0 {
			return 0
		}
		return t.W - uint8(bits.Len64(t.K))
	case OpZExt:
		return t.W - t.A.W + highZeros(t.A)
	case OpConcat:
		if t.A.IsConst() && t.A.K == 0 {
			return t.A.W + highZeros(t.B)
		}
		return highZeros(t.A)
	}
	return 0
}

func foldBin(op Op, w uint8, x, y uint64) (uint64, bool) {
	m := mask(w)
	switch op {
	case OpAdd:
		return (x + y) & m, true
	case OpSub:
		return (x - y) & m, true
	case OpMul:
		return (x * y) & m, true
	case OpAnd:
		return x & y, true
	case OpOr:
		return x | y, true
	case OpXor:
		return x ^ y, true
	case OpShl:
		if y >= uint64(w) {
			return 0, true
		}
		return (x << y) & m, true
	case OpLShr:
		if y >= uint64(w) {
			return 0, true
		}
		return x >> y, true
	case OpAShr:
		sx := sext(x, w)
		if y >= uint64(w) {
			y = uint64(w) - 1
		}
		return uint64(sx>>y) & m, true
	case OpUDiv:
		if y == 0 {
			return m, true // SMT-LIB semantics; Go panics before reaching here
		}
		return x / y, true
	case OpURem:
		if y == 0 {
			return x, true
		}
		return x % y, true
	case OpSDiv:
		if y == 0 {
			return 0, false
		}
		sx, sy := sext(x, w), sext(y, w)
		if sy == -1 {
			return uint64(-sx) & m, true
		}
		return uint64(sx/sy) & m, true
	case OpSRem:
		if y == 0 {
			return 0, false
		}
		sx, sy := sext(x, w), sext(y, w)
		if sy == -1 {
			return 0, true
		}
		return uint64(sx%sy) & m, true
	}
	return 0, false
}

func (tt *TermTab) Not(a *Term) *Term {
	if a.IsConst() {
		return tt.Const(a.W, ^a.K)
	}
	if a.Op == OpNot {
		return a.A
	}
	return tt.mk(OpNot, a.W, a, nil, nil, 0, "")
}

func (tt *TermTab) Neg(a *Term) *Term {
	if a.IsConst() {
		return tt.Const(a.W, -a.K)
	}
	return tt.mk(OpNeg, a.W, a, nil, nil, 0, "")
}

func (tt *TermTab) Concat(hi, lo *Term) *Term {
	w := hi.W + lo.W
	if hi.IsConst() && lo.IsConst() {
		return tt.Const(w, hi.K<<lo.W|lo.K)
	}
	if hi.IsConst() && hi.K == 0 {
		return tt.ZExt(lo, w)
	}
	// concat(extract(h,m+1,x), extract(m,l,x)) = extract(h,l,x)
	if hi.Op == OpExtract && lo.Op == OpExtract && hi.A == lo.A {
		hh, hl := uint8(hi.K>>8), uint8(hi.K)
		lh, ll := uint8(lo.K>>8), uint8(lo.K)
		if hl == lh+1 {
			return tt.Extract(hi.A, hh, ll)
		}
	}
	return tt.mk(OpConcat, w, hi, lo, nil, 0, "")
}

// Extract returns bits hi..lo (inclusive) of a.
func (tt *TermTab) Extract(a *Term, hi, lo uint8) *Term {
	if hi < lo || hi >= a.W {
		panic(fmt.Sprintf("Extract [%d:%d] of width %d", hi, lo, a.W))
	}
	w := hi - lo + 1
	if w == a.W {
		return a
	}
	if a.IsConst() {
		return tt.Const(w, a.K>>lo)
	}
	switch a.Op {
	case OpExtract:
		l0 := uint8(a.K)
		return tt.Extract(a.A, hi+l0, lo+l0)
	case OpZExt:
		iw := a.A.W
		if hi < iw {
			return tt.Extract(a.A, hi, lo)
		}
		if lo >= iw {
			return tt.Const(w, 0)
		}
		return tt.ZExt(tt.Extract(a.A, iw-1, lo), w)
	case OpSExt:
		iw := a.A.W
		if hi < iw {
			return tt.Extract(a.A, hi, lo)
		}
	case OpConcat:
		lw := a.B.W
		if hi < lw {
			return tt.Extract(a.B, hi, lo)
		}
		if lo >= lw {
			return tt.Extract(a.A, hi-lw, lo-lw)
		}
		return tt.Concat(tt.Extract(a.A, hi-lw, 0), tt.Extract(a.B, lw-1, lo))
	case OpAnd, OpOr, OpXor:
		return tt.Bin(a.Op, tt.Extract(a.A, hi, lo), tt.Extract(a.B, hi, lo))
	case OpNot:
		return tt.Not(tt.Extract(a.A, hi, lo))
	case OpAdd, OpSub, OpMul:
		// Truncation distributes over modular arithmetic, but doing so splits a value into pieces
		// that no longer recombine syntactically (concat(extract(s,15,8), extract(s,7,0)) = s is lost
		// once the low byte is rewritten as an 8-bit sum) — which turns byte-wise store/reload of a
		// checksum into a hard adder-equivalence query. Only distribute when it folds an operand away.
		if lo == 0 && (a.A.IsConst() || a.B.IsConst()) && (a.A.Op == OpZExt && a.A.A.W <= hi+1 || a.B.Op == OpZExt && a.B.A.W <= hi+1) {
			return tt.Bin(a.Op, tt.Extract(a.A, hi, 0), tt.Extract(a.B, hi, 0))
		}
	case OpIte:
		if a.B.IsConst() || a.C.IsConst() {
			return tt.Ite(a.A, tt.Extract(a.B, hi, lo), tt.Extract(a.C, hi, lo))
		}
	}
	return tt.mk(OpExtract, w, a, nil, nil, uint64(hi)<<8|uint64(lo), "")
}

func (tt *TermTab) ZExt(a *Term, w uint8) *Term {
	if w == a.W {
		return a
	}
	if w < a.W {
		return tt.Extract(a, w-1, 0)
	}
	if a.IsConst() {
		return tt.Const(w, a.K)
	}
	if a.Op == OpZExt {
		return tt.ZExt(a.A, w)
	}
	return tt.mk(OpZExt, w, a, nil, nil, 0, "")
}

func (tt *TermTab) SExt(a *Term, w uint8) *Term {
	if w == a.W {
		return a
	}
	if w < a.W {
		return tt.Extract(a, w-1, 0)
	}
	if a.IsConst() {
		return tt.Const(w, uint64(sext(a.K, a.W)))
	}
	if a.Op == OpZExt { // sign bit is known zero
		return tt.ZExt(a.A, w)
	}
	if a.Op == OpSExt {
		return tt.SExt(a.A, w)
	}
	return tt.mk(OpSExt, w, a, nil, nil, 0, "")
}

// ---- booleans ----

func (tt *TermTab) Ite(c, a, b *Term) *Term {
	if c.W != 0 {
		panic("Ite: condition not Bool")
	}
	if a.W != b.W {
		panic("Ite: width mismatch")
	}
	if c.IsTrue() {
		return a
	}
	if c.IsFalse() {
		return b
	}
	if a == b {
		return a
	}
	if a.W == 0 {
		if a.IsTrue() && b.IsFalse() {
			return c
		}
		if a.IsFalse() && b.IsTrue() {
			return tt.BNot(c)
		}
		if a.IsTrue() {
			return tt.BOr(c, b)
		}
		if a.IsFalse() {
			return tt.BAnd(tt.BNot(c), b)
		}
		if b.IsTrue() {
			return tt.BOr(tt.BNot(c), a)
		}
		if b.IsFalse() {
			return tt.BAnd(c, a)
		}
	}
	if c.Op == OpBNot {
		return tt.Ite(c.A, b, a)
	}
	return tt.mk(OpIte, a.W, c, a, b, 0, "")
}

func (tt *TermTab) BNot(a *Term) *Term {
	if a.W != 0 {
		panic("BNot: not Bool")
	}
	if a.IsConst() {
		return tt.Bool(a.K == 0)
	}
	if a.Op == OpBNot {
		return a.A
	}
	return tt.mk(OpBNot, 0, a, nil, nil, 0, "")
}

func (tt *TermTab) BAnd(a, b *Term) *Term {
	if a.IsFalse() || b.IsFalse() {
		return tt.fls
	}
	if a.IsTrue() {
		return b
	}
	if b.IsTrue() {
		return a
	}
	if a == b {
		return a
	}
	if (a.Op == OpBNot && a.A == b) || (b.Op == OpBNot && b.A == a) {
		return tt.fls
	}
	if a.id > b.id {
		a, b = b, a
	}
	return tt.mk(OpBAnd, 0, a, b, nil, 0, "")
}

func (tt *TermTab) BOr(a, b *Term) *Term {
	if a.IsTrue() || b.IsTrue() {
		return tt.tru
	}
	if a.IsFalse() {
		return b
	}
	if b.IsFalse() {
		return a
	}
	if a == b {
		return a
	}
	if (a.Op == OpBNot && a.A == b) || (b.Op == OpBNot && b.A == a) {
		return tt.tru
	}
	if a.id > b.id {
		a, b = b, a
	}
	return tt.mk(OpBOr, 0, a, b, nil, 0, "")
}

func (tt *TermTab) Eq(a, b *Term) *Term {
	if a.W != b.W {
		panic(fmt.Sprintf("Eq: width mismatch %d vs %d", a.W, b.W))
	}
	if a == b {
		return tt.tru
	}
	if a.IsConst() && b.IsConst() {
		return tt.Bool(a.K == b.K)
	}
	if a.W == 0 {
		// Bool equality
		if a.IsConst() {
			a, b = b, a
		}
		if b.IsTrue() {
			return a
		}
		if b.IsFalse() {
			return tt.BNot(a)
		}
	}
	if a.IsConst() {
		a, b = b, a
	}
	if b.IsConst() {
		switch a.Op {
		case OpZExt:
			if b.K > mask(a.A.W) {
				return tt.fls
			}
			return tt.Eq(a.A, tt.Const(a.A.W, b.K))
		case OpIte:
			if a.B.IsConst() || a.C.IsConst() {
				return tt.Ite(a.A, tt.Eq(a.B, b), tt.Eq(a.C, b))
			}
		case OpConcat:
			return tt.BAnd(tt.Eq(a.A, tt.Const(a.A.W, b.K>>a.B.W)), tt.Eq(a.B, tt.Const(a.B.W, b.K)))
		case OpAdd:
			if a.B.IsConst() {
				return tt.Eq(a.A, tt.Const(a.W, b.K-a.B.K))
			}
		}
	}
	if a.id > b.id {
		a, b = b, a
	}
	return tt.mk(OpEq, 0, a, b, nil, 0, "")
}

// Cmp builds an ordering predicate: OpULt, OpULe, OpSLt, OpSLe.
func (tt *TermTab) Cmp(op Op, a, b *Term) *Term {
	if a.W != b.W {
		panic("Cmp: width mismatch")
	}
	if a.IsConst() && b.IsConst() {
		switch op {
		case OpULt:
			return tt.Bool(a.K < b.K)
		case OpULe:
			return tt.Bool(a.K <= b.K)
		case OpSLt:
			return tt.Bool(a.SVal() < b.SVal())
		case OpSLe:
			return tt.Bool(a.SVal() <= b.SVal())
		}
	}
	if a == b {
		return tt.Bool(op == OpULe || op == OpSLe)
	}
	w := a.W
	// Comparisons of zero-extended values against constants: narrow.
	if b.IsConst() && a.Op == OpZExt {
		iw := a.A.W
		bs := b.K
		signedNeg := (op == OpSLt || op == OpSLe) && b.SVal() < 0
		if signedNeg {
			return tt.fls // zext value is non-negative
		}
		if bs > mask(iw) {
			return tt.tru
		}
		uop := op
		if op == OpSLt {
			uop = OpULt
		} else if op == OpSLe {
			uop = OpULe
		}
		return tt.Cmp(uop, a.A, tt.Const(iw, bs))
	}
	if a.IsConst() && b.Op == OpZExt {
		iw := b.A.W
		if (op == OpSLt || op == OpSLe) && a.SVal() < 0 {
			return tt.tru
		}
		if a.K > mask(iw) {
			return tt.fls
		}
		uop := op
		if op == OpSLt {
			uop = OpULt
		} else if op == OpSLe {
			uop = OpULe
		}
		return tt.Cmp(uop, tt.Const(iw, a.K), b.A)
	}
	if a.Op == OpZExt && b.Op == OpZExt && a.A.W == b.A.W {
		uop := op
		if op == OpSLt {
			uop = OpULt
		} else if op == OpSLe {
			uop = OpULe
		}
		return tt.Cmp(uop, a.A, b.A)
	}
	switch op {
	case OpULt:
		if b.IsConst() && b.K == 0 {
			return tt.fls
		}
		if a.IsConst() && a.K == mask(w) {
			return tt.fls
		}
	case OpULe:
		if a.IsConst() && a.K == 0 {
			return tt.tru
		}
		if b.IsConst() && b.K == mask(w) {
			return tt.tru
		}
	}
	return tt.mk(op, 0, a, b, nil, 0, "")
}

// FP builds a floating-point operation node over IEEE bit patterns. name encodes the
// operation; see printFP. Result width w (0 for predicates).
func (tt *TermTab) FP(name string, w uint8, a, b *Term) *Term {
	return tt.mk(OpFP, w, a, b, nil, 0, name)
}

// ---- printing ----

func sortOf(w uint8) string {
	if w == 0 {
		return "Bool"
	}
	return fmt.Sprintf("(_ BitVec %d)", w)
}

func constLit(t *Term) string {
	if t.W == 0 {
		if t.K != 0 {
			return "true"
		}
		return "false"
	}
	if t.W%4 == 0 {
		return fmt.Sprintf("#x%0*x", int(t.W/4), t.K)
	}
	return fmt.Sprintf("#b%0*b", int(t.W), t.K)
}

var opNames = map[Op]string{
	OpAdd: "bvadd", OpSub: "bvsub", OpMul: "bvmul", OpUDiv: "bvudiv", OpSDiv: "bvsdiv",
	OpURem: "bvurem", OpSRem: "bvsrem", OpAnd: "bvand", OpOr: "bvor", OpXor: "bvxor",
	OpNot: "bvnot", OpNeg: "bvneg", OpShl: "bvshl", OpLShr: "bvlshr", OpAShr: "bvashr",
	OpConcat: "concat", OpIte: "ite", OpEq: "=", OpULt: "bvult", OpULe: "bvule",
	OpSLt: "bvslt", OpSLe: "bvsle", OpBAnd: "and", OpBOr: "or", OpBNot: "not",
}

// ref returns how a term is referenced from another expression.
func ref(t *Term) string {
	switch t.Op {
	case OpConst:
		return constLit(t)
	case OpVar:
		return t.Name
	}
	return fmt.Sprintf("t%d", t.id)
}

// body returns the defining expression of a compound term in terms of refs of its children.
func body(t *Term) string {
	switch t.Op {
	case OpExtract:
		return fmt.Sprintf("((_ extract %d %d) %s)", t.K>>8, t.K&0xff, ref(t.A))
	case OpZExt:
		return fmt.Sprintf("((_ zero_extend %d) %s)", t.W-t.A.W, ref(t.A))
	case OpSExt:
		return fmt.Sprintf("((_ sign_extend %d) %s)", t.W-t.A.W, ref(t.A))
	case OpFP:
		return printFP(t)
	}
	name := opNames[t.Op]
	if name == "" {
		panic(fmt.Sprintf("body: op %d", t.Op))
	}
	s := "(" + name + " " + ref(t.A)
	if t.B != nil {
		s += " " + ref(t.B)
	}
	if t.C != nil {
		s += " " + ref(t.C)
	}
	return s + ")"
}

func fpSort(w uint8) string {
	if w == 32 {
		return "(_ to_fp 8 24)"
	}
	return "(_ to_fp 11 53)"
}

func printFP(t *Term) string {
	a := t.A
	fa := func(x *Term) string { return "(" + fpSort(x.W) + " " + ref(x) + ")" }
	switch t.Name {
	case "lt", "leq", "eq", "gt", "geq":
		return fmt.Sprintf("(fp.%s %s %s)", t.Name, fa(a), fa(t.B))
	case "isNaN", "isInfinite", "isNegative", "isZero":
		return fmt.Sprintf("(fp.%s %s)", t.Name, fa(a))
	case "isval32": // is the 64-bit result bits t.A the IEEE pattern of fp expr (f64->f32 conversion of t.B)
		return fmt.Sprintf("(= ((_ to_fp 8 24) %s) ((_ to_fp 8 24) RNE %s))", ref(a), fa(t.B))
	case "isval64from32":
		return fmt.Sprintf("(= ((_ to_fp 11 53) %s) ((_ to_fp 11 53) RNE %s))", ref(a), fa(t.B))
	case "cvtnan32": // is f64 t.A NaN -> handled by isNaN
	case "to_sbv64":
		return fmt.Sprintf("((_ fp.to_sbv 64) RTZ %s)", fa(a))
	case "to_ubv64":
		return fmt.Sprintf("((_ fp.to_ubv 64) RTZ %s)", fa(a))
	case "isfromsbv64": // a (64-bit pattern) = to_fp(signed b)
		return fmt.Sprintf("(= ((_ to_fp 11 53) %s) ((_ to_fp 11 53) RNE %s))", ref(a), ref(t.B))
	case "isfromubv64":
		return fmt.Sprintf("(= ((_ to_fp 11 53) %s) ((_ to_fp_unsigned 11 53) RNE %s))", ref(a), ref(t.B))
	case "isfromsbv32":
		return fmt.Sprintf("(= ((_ to_fp 8 24) %s) ((_ to_fp 8 24) RNE %s))", ref(a), ref(t.B))
	case "isfromubv32":
		return fmt.Sprintf("(= ((_ to_fp 8 24) %s) ((_ to_fp_unsigned 8 24) RNE %s))", ref(a), ref(t.B))
	}
	if strings.HasPrefix(t.Name, "isunary:") { // a = roundToIntegral/sqrt(b)
		mode := strings.TrimPrefix(t.Name, "isunary:")
		if mode == "sqrt" {
			return fmt.Sprintf("(= %s (fp.sqrt RNE %s))", fa(a), fa(t.B))
		}
		return fmt.Sprintf("(= %s (fp.roundToIntegral %s %s))", fa(a), mode, fa(t.B))
	}
	if strings.HasPrefix(t.Name, "isop:") { // a = op(b, c) with t.A result bits; operands packed in B,C
		op := strings.TrimPrefix(t.Name, "isop:")
		return fmt.Sprintf("(= %s (fp.%s RNE %s %s))", fa(a), op, fa(t.B), fa(t.C))
	}
	panic("printFP: " + t.Name)
}

// Emit writes definitions for t and all compound sub-terms not yet in defined, in dependency
// order, and returns the reference for t.
func Emit(sb *strings.Builder, t *Term, defined map[uint32]bool) string {
	var walk func(t *Term)
	walk = func(t *Term) {
		if t == nil || t.Op == OpConst {
			return
		}
		if defined[t.id] {
			return
		}
		defined[t.id] = true
		if t.Op == OpVar {
			fmt.Fprintf(sb, "(declare-const %s %s)\n", t.Name, sortOf(t.W))
			return
		}
		walk(t.A)
		walk(t.B)
		walk(t.C)
		fmt.Fprintf(sb, "(define-fun t%d () %s %s)\n", t.id, sortOf(t.W), body(t))
	}
	walk(t)
	return ref(t)
}

// String renders a term as a nested expression (for diagnostics; may be large).
func (t *Term) String() string {
	var sb strings.Builder
	var rec func(t *Term, d int)
	rec = func(t *Term, d int) {
		if t == nil {
			return
		}
		if d > 12 {
			sb.WriteString("…")
			return
		}
		switch t.Op {
		case OpConst:
			if t.W == 0 {
				sb.WriteString(constLit(t))
			} else {
				fmt.Fprintf(&sb, "%d:%d", t.K, t.W)
			}
		case OpVar:
			sb.WriteString(t.Name)
		case OpExtract:
			fmt.Fprintf(&sb, "(extract %d %d ", t.K>>8, t.K&0xff)
			rec(t.A, d+1)
			sb.WriteString(")")
		case OpZExt, OpSExt:
			n := "zext"
			if t.Op == OpSExt {
				n = "sext"
			}
			fmt.Fprintf(&sb, "(%s%d ", n, t.W)
			rec(t.A, d+1)
			sb.WriteString(")")
		case OpFP:
			fmt.Fprintf(&sb, "(fp.%s ", t.Name)
			rec(t.A, d+1)
			if t.B != nil {
				sb.WriteString(" ")
				rec(t.B, d+1)
			}
			sb.WriteString(")")
		default:
			sb.WriteString("(" + opNames[t.Op])
			for _, c := range []*Term{t.A, t.B, t.C} {
				if c != nil {
					sb.WriteString(" ")
					rec(c, d+1)
				}
			}
			sb.WriteString(")")
		}
	}
	rec(t, 0)
	return sb.String()
}

// Eval evaluates t under an assignment of variables (by name). Missing variables are 0.
func Eval(t *Term, env map[string]uint64, memo map[*Term]uint64) uint64 {
	if v, ok := memo[t]; ok {
		return v
	}
	var r uint64
	m := mask(t.W)
	ev := func(x *Term) uint64 { return Eval(x, env, memo) }
	b2u := func(b bool) uint64 {
		if b {
			return 1
		}
		return 0
	}
	switch t.Op {
	case OpConst:
		r = t.K
	case OpVar:
		r = env[t.Name]
		if t.W != 0 {
			r &= m
		}
	case OpNot:
		r = ^ev(t.A) & m
	case OpNeg:
		r = -ev(t.A) & m
	case OpConcat:
		r = ev(t.A)<<t.B.W | ev(t.B)
	case OpExtract:
		hi, lo := uint8(t.K>>8), uint8(t.K)
		r = (ev(t.A) >> lo) & mask(hi-lo+1)
	case OpZExt:
		r = ev(t.A)
	case OpSExt:
		r = uint64(sext(ev(t.A), t.A.W)) & m
	case OpIte:
		if ev(t.A) != 0 {
			r = ev(t.B)
		} else {
			r = ev(t.C)
		}
	case OpEq:
		r = b2u(ev(t.A) == ev(t.B))
	case OpULt:
		r = b2u(ev(t.A) < ev(t.B))
	case OpULe:
		r = b2u(ev(t.A) <= ev(t.B))
	case OpSLt:
		r = b2u(sext(ev(t.A), t.A.W) < sext(ev(t.B), t.A.W))
	case OpSLe:
		r = b2u(sext(ev(t.A), t.A.W) <= sext(ev(t.B), t.A.W))
	case OpBAnd:
		r = b2u(ev(t.A) != 0 && ev(t.B) != 0)
	case OpBOr:
		r = b2u(ev(t.A) != 0 || ev(t.B) != 0)
	case OpBNot:
		r = b2u(ev(t.A) == 0)
	case OpFP:
		r = evalFP(t, ev)
	default:
		x, y := ev(t.A), ev(t.B)
		if (t.Op == OpSDiv || t.Op == OpSRem) && y == 0 {
			if t.Op == OpSRem {
				r = x
			} else if sext(x, t.W) < 0 {
				r = 1
			} else {
				r = m
			}
		} else {
			v, ok := foldBin(t.Op, t.W, x, y)
			if !ok {
				panic("Eval: cannot fold")
			}
			r = v
		}
	}
	memo[t] = r
	return r
}

func bitsToF(x uint64, w uint8) float64 {
	if w == 32 {
		return float64(math.Float32frombits(uint32(x)))
	}
	return math.Float64frombits(x)
}

func evalFP(t *Term, ev func(*Term) uint64) uint64 {
	b2u := func(b bool) uint64 {
		if b {
			return 1
		}
		return 0
	}
	a := bitsToF(ev(t.A), t.A.W)
	switch t.Name {
	case "lt":
		return b2u(a < bitsToF(ev(t.B), t.B.W))
	case "leq":
		return b2u(a <= bitsToF(ev(t.B), t.B.W))
	case "gt":
		return b2u(a > bitsToF(ev(t.B), t.B.W))
	case "geq":
		return b2u(a >= bitsToF(ev(t.B), t.B.W))
	case "eq":
		return b2u(a == bitsToF(ev(t.B), t.B.W))
	case "isNaN":
		return b2u(a != a)
	case "isInfinite":
		return b2u(math.IsInf(a, 0))
	case "isNegative":
		return b2u(math.Signbit(a) && a == a)
	case "isZero":
		return b2u(a == 0)
	}
	// Relational "is" nodes are only used as side constraints; evaluating them is not needed
	// for replay decisions.
	return 1
}
