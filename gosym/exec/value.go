package exec

// Value representation (derived from golang.org/x/tools/go/ssa/interp, BSD licence, see
// LICENSE.xtools):
//
//   *Term            bool, every integer type, uintptr, float32/float64 (as IEEE bits)
//   string           fully concrete string
//   *symstr          string whose bytes are (possibly symbolic) values, or a view over a byte
//                    buffer created by unsafe.String
//   *value           pointer to a cell
//   sdptr            unsafe.SliceData result: pointer to the first element of a slice
//   uptr             unsafe.Pointer wrapping another pointer value
//   structure, array aggregates (by value)
//   []value          slices (share backing with the arrays they were cut from)
//   iface            interface values
//   tuple            multiple results
//   *omap            maps (insertion ordered association list: deterministic iteration)
//   *vchan           channels
//   *ssa.Function, *ssa.Builtin, *closure   function values
//   *extFunc         natively modelled function value
//   opaque           host-side object carried through the program (models)

import (
	"fmt"
	"go/types"
	"strings"

	"golang.org/x/tools/go/ssa"
)

type value any

type tuple []value

type array []value

type structure []value

type iface struct {
	t types.Type // never an "untyped" type; nil for the nil interface
	v value
}

type closure struct {
	Fn  *ssa.Function
	Env []value
}

type symstr struct {
	b []value // each element a *Term of width 8
}

type sdptr struct {
	s []value
}

type uptr struct {
	p value
}

type bad struct{}

// opaque carries a host object (used by models) through interpreted code.
type opaque struct {
	kind string
	obj  any
}

type omap struct {
	keyType types.Type
	keys    []value
	vals    []value
}

// iter is the iterator protocol for range over string/map.
type iter interface {
	next(m *Machine) tuple
}

// ---- type classification ----

type scalarKind struct {
	w      uint8
	signed bool
	float  bool
	isBool bool
	ok     bool
}

func basicKind(t types.Type) scalarKind {
	b, ok := t.Underlying().(*types.Basic)
	if !ok {
		return scalarKind{}
	}
	switch b.Kind() {
	case types.Bool, types.UntypedBool:
		return scalarKind{w: 0, isBool: true, ok: true}
	case types.Int, types.Int64, types.UntypedInt:
		return scalarKind{w: 64, signed: true, ok: true}
	case types.Int8:
		return scalarKind{w: 8, signed: true, ok: true}
	case types.Int16:
		return scalarKind{w: 16, signed: true, ok: true}
	case types.Int32, types.UntypedRune:
		return scalarKind{w: 32, signed: true, ok: true}
	case types.Uint, types.Uint64, types.Uintptr:
		return scalarKind{w: 64, ok: true}
	case types.Uint8:
		return scalarKind{w: 8, ok: true}
	case types.Uint16:
		return scalarKind{w: 16, ok: true}
	case types.Uint32:
		return scalarKind{w: 32, ok: true}
	case types.Float32:
		return scalarKind{w: 32, float: true, ok: true}
	case types.Float64, types.UntypedFloat:
		return scalarKind{w: 64, float: true, ok: true}
	}
	return scalarKind{}
}

func isString(t types.Type) bool {
	b, ok := t.Underlying().(*types.Basic)
	return ok && b.Info()&types.IsString != 0
}

// ---- zero values ----

func (m *Machine) zero(t types.Type) value {
	switch t := t.(type) {
	case *types.Basic:
		if t.Kind() == types.UntypedNil {
			panic("untyped nil has no zero value")
		}
		if t.Info()&types.IsUntyped != 0 {
			t = types.Default(t).(*types.Basic)
		}
		if t.Kind() == types.String {
			return ""
		}
		if t.Kind() == types.UnsafePointer {
			return uptr{}
		}
		k := basicKind(t)
		if !k.ok {
			panic(fmt.Sprint("zero for unexpected type: ", t))
		}
		if k.isBool {
			return m.tt.Bool(false)
		}
		return m.tt.Const(k.w, 0)
	case *types.Pointer:
		return (*value)(nil)
	case *types.Array:
		a := make(array, t.Len())
		if t.Len() > 0 {
			if _, ok := t.Elem().Underlying().(*types.Basic); ok {
				z := m.zero(t.Elem())
				for i := range a {
					a[i] = z
				}
				return a
			}
		}
		for i := range a {
			a[i] = m.zero(t.Elem())
		}
		return a
	case *types.Named:
		return m.zero(t.Underlying())
	case *types.Alias:
		return m.zero(types.Unalias(t))
	case *types.Interface:
		return iface{}
	case *types.Slice:
		return []value(nil)
	case *types.Struct:
		s := make(structure, t.NumFields())
		for i := range s {
			s[i] = m.zero(t.Field(i).Type())
		}
		return s
	case *types.Tuple:
		if t.Len() == 1 {
			return m.zero(t.At(0).Type())
		}
		s := make(tuple, t.Len())
		for i := range s {
			s[i] = m.zero(t.At(i).Type())
		}
		return s
	case *types.Chan:
		return (*vchan)(nil)
	case *types.Map:
		return (*omap)(nil)
	case *types.Signature:
		return (*ssa.Function)(nil)
	case *types.TypeParam:
		panic("zero: uninstantiated type parameter " + t.String())
	}
	panic(fmt.Sprint("zero: unexpected ", t))
}

// ---- load / store (aggregates are copied by value) ----

func load(T types.Type, addr *value) value {
	return copyVal(*addr)
}

// copyVal deep-copies aggregate values (struct/array) so that value semantics hold.
func copyVal(v value) value {
	switch v := v.(type) {
	case structure:
		a := make(structure, len(v))
		for i := range v {
			a[i] = copyVal(v[i])
		}
		return a
	case array:
		a := make(array, len(v))
		for i := range v {
			a[i] = copyVal(v[i])
		}
		return a
	}
	return v
}

// store stores v into *addr, element-wise for aggregates so that pointers to fields and
// elements of the destination stay valid.
func store(addr *value, v value) {
	switch rhs := v.(type) {
	case structure:
		lhs, ok := (*addr).(structure)
		if !ok || len(lhs) != len(rhs) {
			*addr = copyVal(rhs)
			return
		}
		for i := range lhs {
			store(&lhs[i], rhs[i])
		}
	case array:
		lhs, ok := (*addr).(array)
		if !ok || len(lhs) != len(rhs) {
			*addr = copyVal(rhs)
			return
		}
		for i := range lhs {
			store(&lhs[i], rhs[i])
		}
	default:
		*addr = v
	}
}

// ---- strings ----

func (m *Machine) strBytes(v value) []value {
	switch s := v.(type) {
	case string:
		b := make([]value, len(s))
		for i := 0; i < len(s); i++ {
			b[i] = m.tt.Const(8, uint64(s[i]))
		}
		return b
	case *symstr:
		return s.b
	}
	panic(fmt.Sprintf("strBytes: %T", v))
}

func strLen(v value) int {
	switch s := v.(type) {
	case string:
		return len(s)
	case *symstr:
		return len(s.b)
	}
	panic(fmt.Sprintf("strLen: %T", v))
}

// mkStr builds a string value from bytes it owns: a Go string if all are concrete.
func (m *Machine) mkStr(b []value) value {
	for _, x := range b {
		if !x.(*Term).IsConst() {
			return &symstr{b: b}
		}
	}
	var sb strings.Builder
	sb.Grow(len(b))
	for _, x := range b {
		sb.WriteByte(byte(x.(*Term).K))
	}
	return sb.String()
}

// concreteString returns the Go string if v is fully concrete.
func concreteString(v value) (string, bool) {
	switch s := v.(type) {
	case string:
		return s, true
	case *symstr:
		var sb strings.Builder
		for _, x := range s.b {
			t := x.(*Term)
			if !t.IsConst() {
				return "", false
			}
			sb.WriteByte(byte(t.K))
		}
		return sb.String(), true
	}
	return "", false
}

// ---- equality ----

func sameType(x, y types.Type) bool {
	if x == nil {
		return y == nil
	}
	return y != nil && types.Identical(x, y)
}

func cellOf(v value) (*value, bool) {
	switch p := v.(type) {
	case *value:
		return p, true
	case sdptr:
		if cap(p.s) == 0 {
			return nil, true
		}
		return &p.s[:1][0], true
	case uptr:
		if p.p == nil {
			return nil, true
		}
		return cellOf(p.p)
	}
	return nil, false
}

// equals returns a Bool term: the Go == relation on x and y of static type t.
func (m *Machine) equals(t types.Type, x, y value) *Term {
	tt := m.tt
	switch x := x.(type) {
	case *Term:
		yt := y.(*Term)
		if k := basicKind(t); k.float {
			return m.fpCmp("eq", x, yt)
		}
		return tt.Eq(x, yt)
	case string, *symstr:
		return m.strEq(x, y)
	case *value, sdptr, uptr:
		cx, _ := cellOf(x)
		cy, ok := cellOf(y)
		if !ok {
			panic(fmt.Sprintf("equals: pointer vs %T", y))
		}
		return tt.Bool(cx == cy)
	case *vchan:
		return tt.Bool(x == y.(*vchan))
	case structure:
		ys := y.(structure)
		st := t.Underlying().(*types.Struct)
		r := tt.Bool(true)
		for i := range x {
			f := st.Field(i)
			if f.Name() == "_" {
				continue
			}
			r = tt.BAnd(r, m.equals(f.Type(), x[i], ys[i]))
			if r.IsFalse() {
				return r
			}
		}
		return r
	case array:
		ya := y.(array)
		et := t.Underlying().(*types.Array).Elem()
		r := tt.Bool(true)
		for i := range x {
			r = tt.BAnd(r, m.equals(et, x[i], ya[i]))
			if r.IsFalse() {
				return r
			}
		}
		return r
	case iface:
		yi := y.(iface)
		if !sameType(x.t, yi.t) {
			return tt.Bool(false)
		}
		if x.t == nil {
			return tt.Bool(true)
		}
		if !types.Comparable(x.t) {
			m.runtimePanic("runtime error: comparing uncomparable type " + x.t.String())
		}
		return m.equals(x.t, x.v, yi.v)
	case opaque:
		yo, ok := y.(opaque)
		return tt.Bool(ok && x.obj == yo.obj)
	case *omap:
		return tt.Bool(x == y.(*omap))
	case *ssa.Function, *closure, *ssa.Builtin, *extFunc:
		return tt.Bool(x == y)
	}
	panic(fmt.Sprintf("comparing uncomparable type %s (%T)", t, x))
}

func (m *Machine) strEq(x, y value) *Term {
	tt := m.tt
	if xs, ok := x.(string); ok {
		if ys, ok := y.(string); ok {
			return tt.Bool(xs == ys)
		}
	}
	if strLen(x) != strLen(y) {
		return tt.Bool(false)
	}
	xb, yb := m.strBytes(x), m.strBytes(y)
	r := tt.Bool(true)
	for i := range xb {
		r = tt.BAnd(r, tt.Eq(xb[i].(*Term), yb[i].(*Term)))
		if r.IsFalse() {
			return r
		}
	}
	return r
}

// ---- maps ----

func (m *Machine) mapFind(mp *omap, key value) int {
	if mp == nil {
		return -1
	}
	for i, k := range mp.keys {
		c := m.equals(mp.keyType, k, key)
		if m.path.Branch(c, "mapkey") {
			return i
		}
	}
	return -1
}

func (m *Machine) mapInsert(mp *omap, key, v value) {
	if i := m.mapFind(mp, key); i >= 0 {
		mp.vals[i] = v
		return
	}
	mp.keys = append(mp.keys, copyVal(key))
	mp.vals = append(mp.vals, v)
}

func (m *Machine) mapDelete(mp *omap, key value) {
	if i := m.mapFind(mp, key); i >= 0 {
		mp.keys = append(mp.keys[:i:i], mp.keys[i+1:]...)
		mp.vals = append(mp.vals[:i:i], mp.vals[i+1:]...)
	}
}

type mapIter struct {
	keys []value
	vals []value
	i    int
}

func (it *mapIter) next(m *Machine) tuple {
	if it.i >= len(it.keys) {
		return tuple{m.tt.Bool(false), nil, nil}
	}
	k, v := it.keys[it.i], it.vals[it.i]
	it.i++
	return tuple{m.tt.Bool(true), copyVal(k), copyVal(v)}
}

type stringIter struct {
	b []value
	i int
}

func (it *stringIter) next(m *Machine) tuple {
	if it.i >= len(it.b) {
		return tuple{m.tt.Bool(false), nil, nil}
	}
	r, n := m.decodeRune(it.b[it.i:])
	idx := m.tt.Const(64, uint64(it.i))
	it.i += n
	return tuple{m.tt.Bool(true), idx, r}
}

// decodeRune decodes one UTF-8 sequence from b (non-empty); symbolic lead bytes are resolved by
// branching on the ASCII test and, failing that, concretised.
func (m *Machine) decodeRune(b []value) (*Term, int) {
	tt := m.tt
	b0 := b[0].(*Term)
	if !b0.IsConst() {
		if m.path.Branch(tt.Cmp(OpULt, b0, tt.Const(8, 0x80)), "rune-ascii") {
			return tt.ZExt(b0, 32), 1
		}
	} else if b0.K < 0x80 {
		return tt.Const(32, b0.K), 1
	}
	// Multi-byte: concretise up to 4 bytes.
	n := len(b)
	if n > 4 {
		n = 4
	}
	buf := make([]byte, n)
	for i := 0; i < n; i++ {
		buf[i] = byte(m.path.Concretise(b[i].(*Term), "rune-byte"))
		// Stop early if the sequence is complete.
		if r, sz := decodeRuneBytes(buf[:i+1]); sz == i+1 && (r != 0xFFFD || i == n-1 || !fullRuneNeedsMore(buf[:i+1])) {
			return tt.Const(32, uint64(uint32(r))), sz
		}
	}
	r, sz := decodeRuneBytes(buf)
	return tt.Const(32, uint64(uint32(r))), sz
}

// toStr renders a value for diagnostics.
func toStr(v value) string {
	switch v := v.(type) {
	case nil:
		return "<nil>"
	case *Term:
		if v.IsConst() {
			if v.W == 0 {
				return constLit(v)
			}
			return fmt.Sprintf("%d", v.K)
		}
		s := v.String()
		if len(s) > 80 {
			s = s[:80] + "…"
		}
		return s
	case string:
		return fmt.Sprintf("%q", v)
	case *symstr:
		if s, ok := concreteString(v); ok {
			return fmt.Sprintf("%q", s)
		}
		return fmt.Sprintf("symstr[%d]", len(v.b))
	case iface:
		if v.t == nil {
			return "nil"
		}
		return fmt.Sprintf("(%s %s)", v.t, toStr(v.v))
	case structure:
		var parts []string
		for _, e := range v {
			parts = append(parts, toStr(e))
		}
		return "{" + strings.Join(parts, " ") + "}"
	case array:
		var parts []string
		for i, e := range v {
			if i > 16 {
				parts = append(parts, "…")
				break
			}
			parts = append(parts, toStr(e))
		}
		return "[" + strings.Join(parts, " ") + "]"
	case []value:
		var parts []string
		for i, e := range v {
			if i > 16 {
				parts = append(parts, "…")
				break
			}
			parts = append(parts, toStr(e))
		}
		return "[" + strings.Join(parts, " ") + "]"
	case tuple:
		var parts []string
		for _, e := range v {
			parts = append(parts, toStr(e))
		}
		return "(" + strings.Join(parts, ", ") + ")"
	case *value:
		if v == nil {
			return "nilptr"
		}
		return fmt.Sprintf("&%p", v)
	}
	return fmt.Sprintf("<%T>", v)
}
