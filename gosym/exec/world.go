package exec

// World: the loaded SSA program (shared, read-only across workers) plus the interception table.

import (
	"fmt"
	"go/types"
	"os"
	"path/filepath"
	"sort"
	"strings"
	"sync"
	"time"

	"golang.org/x/tools/go/packages"
	"golang.org/x/tools/go/ssa"
	"golang.org/x/tools/go/ssa/ssautil"
)

type interceptFn func(m *Machine, caller *frame, fn *ssa.Function, args []value) value

type extFunc struct {
	name string
	f    func(m *Machine, caller *frame, args []value) value
}

type World struct {
	Prog     *ssa.Program
	Pkgs     []*packages.Package
	SSAPkgs  map[string]*ssa.Package
	Sizes    types.Sizes
	ModPath  string
	RepoDir  string
	icache   sync.Map // *ssa.Function -> interceptFn (or nil marker)
	initOK   map[string]bool
	LoadSecs float64
	Files    map[string]bool // source files of functions executed (for evidence)
	fmu      sync.Mutex
	Funcs    map[string]bool
	fnKnown  map[*ssa.Function]bool
	// ModulePath: import-path prefix of the module under test
	ModulePath string
	Tier       int // 0 quick, 1 thorough
}

type nilIntercept struct{}

// Load type-checks the given package patterns of the module in dir with the overlay files
// (virtual path -> contents) and builds SSA for the whole import closure.
func Load(dir string, patterns []string, overlay map[string][]byte, tags string) (*World, error) {
	t0 := time.Now()
	if !strings.Contains(os.Getenv("PATH"), "/opt/veriftools/go1.26.8/bin") {
		os.Setenv("PATH", "/opt/veriftools/go1.26.8/bin:"+os.Getenv("PATH"))
	}
	cfg := &packages.Config{
		Mode:       packages.LoadAllSyntax | packages.NeedModule,
		Dir:        dir,
		Overlay:    overlay,
		BuildFlags: []string{"-tags=" + tags + ",gosym"},
		Env:        append(os.Environ(), "PATH=/opt/veriftools/go1.26.8/bin:"+os.Getenv("PATH"), "GOFLAGS=-mod=mod", "GOPROXY=off", "GOSUMDB=off", "GOTOOLCHAIN=local", "CGO_ENABLED=0"),
	}
	pkgs, err := packages.Load(cfg, patterns...)
	if err != nil {
		return nil, err
	}
	var errs []string
	packages.Visit(pkgs, nil, func(p *packages.Package) {
		for _, e := range p.Errors {
			errs = append(errs, e.Error())
		}
	})
	if len(errs) > 0 {
		sort.Strings(errs)
		if len(errs) > 20 {
			errs = errs[:20]
		}
		return nil, &LoadError{Msgs: errs}
	}
	prog, spkgs := ssautil.AllPackages(pkgs, ssa.InstantiateGenerics|ssa.SanityCheckFunctions&0)
	prog.Build()
	w := &World{Prog: prog, Pkgs: pkgs, SSAPkgs: map[string]*ssa.Package{}, RepoDir: dir, initOK: map[string]bool{}, Funcs: map[string]bool{}, fnKnown: map[*ssa.Function]bool{}, ModulePath: "github.com/arloliu/go-secs/"}
	for i, p := range pkgs {
		if spkgs[i] != nil {
			w.SSAPkgs[p.PkgPath] = spkgs[i]
		}
		if p.Module != nil && w.ModPath == "" {
			w.ModPath = p.Module.Path
		}
	}
	w.Sizes = types.SizesFor("gc", "amd64")
	for _, p := range stdInitAllow {
		w.initOK[p] = true
	}
	w.LoadSecs = time.Since(t0).Seconds()
	return w, nil
}

type LoadError struct{ Msgs []string }

func (e *LoadError) Error() string { return "load errors:\n  " + strings.Join(e.Msgs, "\n  ") }

// std packages whose initialisers are pure enough to execute.
var stdInitAllow = []string{
	"errors", "io", "unicode/utf8", "unicode/utf16", "strconv", "bytes", "strings", "slices", "maps",
	"encoding/binary", "math", "math/bits", "sort", "context", "iter", "cmp", "bufio",
	"internal/itoa", "internal/stringslite", "internal/bytealg", "internal/byteorder", "unicode",
	"encoding/hex", "internal/strconv",
}

func (w *World) initAllowed(pkg *ssa.Package) bool {
	path := pkg.Pkg.Path()
	if w.initOK[path] {
		return true
	}
	if w.ModPath != "" && (path == w.ModPath || strings.HasPrefix(path, w.ModPath+"/")) {
		return true
	}
	return false
}

// intercept returns the model for fn, if any.
func (w *World) intercept(fn *ssa.Function) interceptFn {
	if v, ok := w.icache.Load(fn); ok {
		if f, ok := v.(interceptFn); ok {
			return f
		}
		return nil
	}
	f := w.findIntercept(fn)
	if f == nil {
		w.icache.Store(fn, nilIntercept{})
	} else {
		w.icache.Store(fn, f)
	}
	return f
}

func (w *World) findIntercept(fn *ssa.Function) interceptFn {
	name := fn.String()
	if fn.Name() == "init" && fn.Pkg != nil && fn.Signature.Recv() == nil && fn.Parent() == nil && fn.Synthetic != "" {
		// Import cascade: initialisation is lazy (Machine.ensureInit).
		return func(m *Machine, caller *frame, fn *ssa.Function, args []value) value { return nil }
	}
	if strings.HasPrefix(fn.Name(), "vsym") && fn.Signature.Recv() == nil {
		if f := intrinsics[fn.Name()]; f != nil {
			return f
		}
	}
	if f, ok := models[name]; ok {
		return f
	}
	// generic instances: match on the origin's name
	if o := fn.Origin(); o != nil && o != fn {
		if f, ok := models[o.String()]; ok {
			return f
		}
	}
	for _, pm := range prefixModels {
		if strings.HasPrefix(name, pm.prefix) {
			if f := pm.pick(fn, name); f != nil {
				return f
			}
		}
	}
	return nil
}

// FindFunc locates a package-level function "pkgpath.Name".
func (w *World) FindFunc(pkgPath, name string) *ssa.Function {
	p := w.SSAPkgs[pkgPath]
	if p == nil {
		return nil
	}
	return p.Func(name)
}

// noteFuncs records the functions of the module under test (harness overlay files excluded) whose
// SSA bodies a path executed.
func (w *World) noteFuncs(seen map[*ssa.Function]bool) {
	w.fmu.Lock()
	defer w.fmu.Unlock()
	for fn := range seen {
		if w.fnKnown[fn] {
			continue
		}
		w.fnKnown[fn] = true
		if fn.Pkg == nil || fn.Pkg.Pkg == nil || !strings.HasPrefix(fn.Pkg.Pkg.Path(), w.ModulePath) {
			continue
		}
		if pos := fn.Pos(); pos.IsValid() {
			if strings.Contains(filepath.Base(w.Prog.Fset.Position(pos).Filename), "zz_verif_") {
				continue
			}
		}
		w.Funcs[fn.String()] = true
	}
}

// RepoFuncs returns the executed functions that belong to the module under test (not harness
// files).
func (w *World) RepoFuncs() []string {
	w.fmu.Lock()
	defer w.fmu.Unlock()
	var out []string
	for f := range w.Funcs {
		out = append(out, f)
	}
	sort.Strings(out)
	return out
}

func relPath(base, p string) string {
	if r, err := filepath.Rel(base, p); err == nil {
		return r
	}
	return p
}

var _ = fmt.Sprintf
