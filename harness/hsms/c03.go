//go:build verif

package hsms

import (
	"errors"

	"github.com/arloliu/go-secs/v2/secs2"
)

// ---- independent SEMI E37 §8.2 frame reference (literal byte positions) ----

// refFrame lays out [len:4][sid_hi sid_lo][W<<7|stream][function][ptype][stype][sys0..3][body].
func refFrame(sid uint16, b2, b3, ptype, stype byte, sys [4]byte, body []byte) []byte {
	n := uint32(10 + len(body))
	out := []byte{byte(n >> 24), byte(n >> 16), byte(n >> 8), byte(n),
		byte(sid >> 8), byte(sid), b2, b3, ptype, stype, sys[0], sys[1], sys[2], sys[3]}
	return append(out, body...)
}

func bytesEq(a, b []byte) bool {
	if len(a) != len(b) {
		return false
	}
	for i := range a {
		if a[i] != b[i] {
			return false
		}
	}
	return true
}

func assertBytes(got, want []byte, label string) {
	vsymAssert(len(got) == len(want), label+"-length")
	for i := 0; i < len(got) && i < len(want); i++ {
		vsymAssert(got[i] == want[i], label+"-bytes")
	}
}

func flatten(bufs [][]byte) []byte {
	var out []byte
	for _, b := range bufs {
		out = append(out, b...)
	}
	return out
}

// c03Body chooses a body item (possibly nil) with symbolic contents.
func c03Body() secs2.Item {
	switch vsymChoose(7) {
	case 0:
		return nil
	case 1:
		return secs2.NewEmptyItem()
	case 2:
		return secs2.U1(vsymU8())
	case 3:
		return secs2.I4(int32(vsymU32()), int32(vsymU32()))
	case 4:
		return secs2.A(string(vsymBytes(vsymChoose(3))))
	case 5:
		return secs2.B(vsymBytes(2))
	default:
		return secs2.L(secs2.U2(vsymU16()), secs2.A(string(vsymBytes(1))))
	}
}

func sym4() [4]byte { return [4]byte{vsymU8(), vsymU8(), vsymU8(), vsymU8()} }

// VerifC03_Data: every (stream, function, W, session id, system bytes) tuple x body shapes.
func VerifC03_Data() {
	vsymExpect("built")
	vsymExpect("refused-stream")
	vsymExpect("refused-wbit")
	stream, function, w := vsymU8(), vsymU8(), vsymBool()
	sid := vsymU16()
	sys := sym4()
	body := c03Body()
	msg, err := NewDataMessage(stream, function, w, sid, sys, body)
	bad := stream > 127 || (w && function%2 == 0)
	vsymAssert((err != nil) == bad, "construction-rejects-exactly-the-invalid-combinations")
	if err != nil {
		if stream > 127 {
			vsymReach("refused-stream")
			vsymAssert(errors.Is(err, ErrInvalidStreamCode), "stream-error-kind")
		} else {
			vsymReach("refused-wbit")
			vsymAssert(errors.Is(err, ErrInvalidRspMsg), "wbit-error-kind")
		}
		vsymAssert(msg == nil, "error-xor-message")
		return
	}
	vsymReach("built")
	var bodyBytes []byte
	if body != nil {
		bodyBytes = body.ToBytes()
	}
	b2 := stream
	if w {
		b2 |= 0x80
	}
	want := refFrame(sid, b2, function, 0, 0, sys, bodyBytes)
	got := msg.ToBytes()
	assertBytes(got, want, "frame")
	// accessors
	vsymAssert(msg.Stream() == stream && msg.Function() == function && msg.WaitBit() == w, "accessors-sfw")
	vsymAssert(msg.SessionID() == sid && msg.SystemBytes() == sys && msg.Type() == DataMsgType, "accessors-ids")
	vsymAssert(msg.ID() == uint32(sys[0])<<24|uint32(sys[1])<<16|uint32(sys[2])<<8|uint32(sys[3]), "id-big-endian")
	vsymAssert(msg.BodyLen() == len(bodyBytes), "bodylen")
	// what a connection writes
	wire := flatten(buildFrameBuffers(msg))
	assertBytes(wire, want, "socket-bytes")
	// decode -> identical header, equal body, identical re-serialisation
	dec, derr := DecodeHSMSMessage(got)
	vsymAssert(derr == nil && dec != nil, "own-frame-decodes")
	if derr != nil || dec == nil {
		return
	}
	dm, ok := dec.ToDataMessage()
	vsymAssert(ok && dm != nil, "decoded-is-data-message")
	if !ok || dm == nil {
		return
	}
	vsymAssert(dm.HeaderBytes() == msg.HeaderBytes(), "decoded-header-identical")
	vsymAssert(dm.Stream() == stream && dm.Function() == function && dm.WaitBit() == w && dm.SessionID() == sid && dm.SystemBytes() == sys, "decoded-fields")
	it, ierr := dm.Item()
	vsymAssert(ierr == nil && dm.DecodeErr() == nil, "decoded-body-decodes")
	orig, _ := msg.Item()
	vsymAssert(secs2.Equal(it, orig), "decoded-body-equal")
	vsymAssert(dm.Equal(msg) && msg.Equal(dm), "message-equal")
	assertBytes(dm.ToBytes(), want, "reserialised")
	assertBytes(flatten(buildFrameBuffers(dm)), want, "socket-bytes-decoded")
	// payload entry points
	p1, e1 := DecodeHSMSPayload(got[4:])
	vsymAssert(e1 == nil && p1 != nil, "payload-decodes")
	if e1 == nil && p1 != nil {
		assertBytes(p1.ToBytes(), want, "payload-reserialised")
	}
	p2, e2 := DecodeOwnedHSMSPayload(append([]byte(nil), got[4:]...))
	vsymAssert(e2 == nil && p2 != nil, "owned-payload-decodes")
	if e2 == nil && p2 != nil {
		assertBytes(p2.ToBytes(), want, "owned-payload-reserialised")
	}
	// binary codec
	mb, merr := msg.Codec().MarshalBinary()
	vsymAssert(merr == nil, "marshal-ok")
	assertBytes(mb, want, "marshal")
	var cd DataMessageCodec
	uerr := cd.UnmarshalBinary(mb)
	vsymAssert(uerr == nil, "unmarshal-ok")
	if uerr == nil {
		assertBytes(cd.ToBytes(), want, "unmarshal-reserialised")
	}
	// from-header constructor agrees
	fh, ferr := NewDataMessageFromHeader(msg.HeaderBytes(), body)
	vsymAssert(ferr == nil && fh != nil, "from-header-ok")
	if ferr == nil && fh != nil {
		assertBytes(fh.ToBytes(), want, "from-header-frame")
	}
}

// VerifC03_ErroredBody: a body carrying a deferred error (directly or nested) is refused.
func VerifC03_ErroredBody() {
	vsymExpect("refused")
	a := vsymU8()
	bad := secs2.NewUintItem(int(a)|16, 1)
	var body secs2.Item = bad
	for d := vsymChoose(3); d > 0; d-- {
		body = secs2.L(secs2.U1(a), body)
	}
	stream, function := vsymU8()&0x7F, vsymU8()
	msg, err := NewDataMessage(stream, function, false, vsymU16(), sym4(), body)
	vsymReach("refused")
	vsymAssert(err != nil && msg == nil, "errored-body-refused")
	base, _ := NewDataMessage(stream, function, false, 0, [4]byte{}, nil)
	m2, err2 := base.Derive().WithItem(body).Build()
	vsymAssert(err2 != nil && m2 == nil, "errored-body-refused-by-builder")
	var hdr [10]byte
	hdr[2], hdr[3] = stream, function
	m3, err3 := NewDataMessageFromHeader(hdr, body)
	vsymAssert(err3 != nil && m3 == nil, "errored-body-refused-from-header")
}

// VerifC03_FromHeader: NewDataMessageFromHeader accepts exactly PType 0, SType 0, valid W/function.
func VerifC03_FromHeader() {
	vsymExpect("ok")
	vsymExpect("bad")
	var h [10]byte
	for i := range h {
		h[i] = vsymU8()
	}
	m, err := NewDataMessageFromHeader(h, secs2.U1(vsymU8()))
	bad := h[4] != 0 || h[5] != 0 || (h[2]&0x80 != 0 && h[3]%2 == 0)
	vsymAssert((err != nil) == bad, "from-header-validation")
	if err == nil {
		vsymReach("ok")
		vsymAssert(m.HeaderBytes() == h, "from-header-keeps-every-header-byte")
	} else {
		vsymReach("bad")
		vsymAssert(m == nil, "error-xor-message")
	}
}

// VerifC03_Control: all nine control message kinds with symbolic arguments.
func VerifC03_Control() {
	vsymExpect("checked")
	sid := vsymU16()
	sys := sym4()
	status := vsymU8()
	kind := vsymChoose(9)
	var m *ControlMessage
	var want []byte
	mk := func(t MsgType) *ControlMessage {
		// a request of symbolic (possibly wrong) type for the .rsp factories
		var h [10]byte
		h[0], h[1] = byte(sid>>8), byte(sid)
		h[5] = byte(t)
		copy(h[6:], sys[:])
		return &ControlMessage{header: h}
	}
	reqType := MsgType(vsymU8())
	switch kind {
	case 0:
		m = NewSelectReq(sid, sys)
		want = refFrame(sid, 0, 0, 0, 1, sys, nil)
		vsymAssert(m.WaitBit(), "select-req-expects-reply")
	case 1:
		r, err := NewSelectRsp(mk(reqType), status)
		vsymAssert((err == nil) == (reqType == SelectReqType), "select-rsp-needs-select-req")
		if err != nil {
			vsymAssert(r == nil, "error-xor-message")
			return
		}
		m = r
		want = refFrame(sid, 0, status, 0, 2, sys, nil)
	case 2:
		m = NewDeselectReq(sid, sys)
		want = refFrame(sid, 0, 0, 0, 3, sys, nil)
	case 3:
		r, err := NewDeselectRsp(mk(reqType), status)
		vsymAssert((err == nil) == (reqType == DeselectReqType), "deselect-rsp-needs-deselect-req")
		if err != nil {
			return
		}
		m = r
		want = refFrame(sid, 0, status, 0, 4, sys, nil)
	case 4:
		m = NewLinktestReq(sys)
		want = refFrame(0xFFFF, 0, 0, 0, 5, sys, nil)
	case 5:
		r, err := NewLinktestRsp(mk(reqType))
		vsymAssert((err == nil) == (reqType == LinktestReqType), "linktest-rsp-needs-linktest-req")
		if err != nil {
			return
		}
		m = r
		want = refFrame(0xFFFF, 0, 0, 0, 6, sys, nil)
	case 6:
		m = NewSeparateReq(sid, sys)
		want = refFrame(sid, 0, 0, 0, 9, sys, nil)
		vsymAssert(!m.WaitBit(), "separate-expects-no-reply")
	case 7:
		// Reject.req for a rejected control/undefined frame: byte 2 = PType for reason 2, else SType
		ptype, stype := vsymU8(), vsymU8()
		m = NewRejectReqRaw(sid, ptype, stype, sys, status)
		b2 := stype
		if status == 2 {
			b2 = ptype
		}
		want = refFrame(sid, b2, status, 0, 7, sys, nil)
		rc, rerr := GetRejectReasonCode(m)
		if status >= 1 && status <= 4 {
			vsymAssert(rerr == nil && rc == status, "reject-reason-readback")
		} else {
			vsymAssert(rerr != nil, "reject-reason-out-of-range")
		}
	default:
		// Reject.req built from a rejected message (control of symbolic type, or data)
		var rejected Message
		stype := reqType
		if vsymBool() {
			dm, _ := NewDataMessage(vsymU8()&0x7F, 1, false, sid, sys, nil)
			rejected = dm
			stype = 0
		} else {
			vsymAssume(stype != 0)
			rejected = mk(stype)
		}
		m = NewRejectReq(rejected, status)
		b2 := byte(stype)
		if status == 2 {
			b2 = 0 // PType of anything the library holds is 0
		}
		want = refFrame(sid, b2, status, 0, 7, sys, nil)
	}
	vsymReach("checked")
	got := m.ToBytes()
	assertBytes(got, want, "control-frame")
	assertBytes(flatten(buildFrameBuffers(m)), want, "control-socket-bytes")
	var wh [10]byte
	copy(wh[:], want[4:14])
	vsymAssert(m.HeaderBytes() == wh, "control-header")
	vsymAssert(m.SystemBytes() == sys, "control-sysbytes")
	dec, err := DecodeHSMSMessage(got)
	vsymAssert(err == nil && dec != nil, "control-decodes")
	if err == nil && dec != nil {
		vsymAssert(dec.HeaderBytes() == wh, "control-decoded-header")
		vsymAssert(dec.Type() == MsgType(want[9]), "control-decoded-type")
		assertBytes(dec.ToBytes(), want, "control-reserialised")
		_, isData := dec.ToDataMessage()
		vsymAssert(!isData, "control-is-not-data")
	}
}

// VerifC03_Restamp: re-stamping session id / system bytes changes only those header bytes, in
// chains of up to 4 steps (thorough: 5), on constructed and on decoded messages; the body is untouched.
func VerifC03_Restamp() {
	vsymExpect("chained")
	sid0, sys0 := vsymU16(), sym4()
	stream, function := vsymU8()&0x7F, vsymU8()
	w := vsymBool()
	vsymAssume(!w || function%2 == 1)
	x := vsymU8()
	var msg *DataMessage
	base, err := NewDataMessage(stream, function, w, sid0, sys0, secs2.L(secs2.U1(x), secs2.A("k")))
	vsymAssert(err == nil, "base-ok")
	if err != nil {
		return
	}
	msg = base
	if vsymBool() {
		d, derr := DecodeHSMSMessage(base.ToBytes())
		vsymAssert(derr == nil, "base-decodes")
		if derr != nil {
			return
		}
		msg, _ = d.ToDataMessage()
	}
	sid, sys := sid0, sys0
	maxSteps := 4
	if vsymTier() == 1 {
		maxSteps = 5
	}
	steps := 1 + vsymChoose(maxSteps)
	cur := msg
	for i := 0; i < steps; i++ {
		switch vsymChoose(4) {
		case 0:
			sid = vsymU16()
			cur = cur.WithSessionID(sid)
		case 1:
			sys = sym4()
			cur = cur.WithSystemBytes(sys)
		case 2:
			id := vsymU32()
			sys = [4]byte{byte(id >> 24), byte(id >> 16), byte(id >> 8), byte(id)}
			cur = cur.WithID(id)
		default:
			sid = vsymU16()
			n, berr := cur.Derive().WithSessionID(sid).Build()
			vsymAssert(berr == nil && n != nil, "derive-build-ok")
			if berr != nil || n == nil {
				return
			}
			cur = n
		}
	}
	vsymReach("chained")
	b2 := stream
	if w {
		b2 |= 0x80
	}
	body := secs2.L(secs2.U1(x), secs2.A("k")).ToBytes()
	assertBytes(cur.ToBytes(), refFrame(sid, b2, function, 0, 0, sys, body), "restamped-frame")
	// the original is unchanged
	assertBytes(msg.ToBytes(), refFrame(sid0, b2, function, 0, 0, sys0, body), "original-unchanged")
	// control messages likewise
	c := NewSelectReq(sid0, sys0)
	c2 := c.WithSessionID(sid).WithSystemBytes(sys)
	assertBytes(c2.ToBytes(), refFrame(sid, 0, 0, 0, 1, sys, nil), "control-restamped")
	assertBytes(c.ToBytes(), refFrame(sid0, 0, 0, 0, 1, sys0, nil), "control-original-unchanged")
}

// VerifC03_SystemBytes: ToSystemBytes / FromSystemBytes are big-endian inverses for all 2^32 ids.
func VerifC03_SystemBytes() {
	id := vsymU32()
	b := ToSystemBytes(id)
	vsymAssert(b[0] == byte(id>>24) && b[1] == byte(id>>16) && b[2] == byte(id>>8) && b[3] == byte(id), "big-endian")
	vsymAssert(FromSystemBytes(b) == id, "inverse")
	s := sym4()
	vsymAssert(ToSystemBytes(FromSystemBytes(s)) == s, "inverse-2")
}

// VerifC03_LargeBody: messages whose length crosses the 2^16 boundary of the 4-byte length prefix
// (message length 65535, 65536, 65537 and 100010): the prefix written by ToBytes equals the E37
// reference, equals what the connection hands to the socket, and the frame decodes back.
func VerifC03_LargeBody() {
	vsymExpect("checked")
	// a Binary item of n bytes encodes to 4+n bytes (3 length bytes above 65535) or 3+n below
	sizes := []int{65522, 65521, 65523, 100000 - 4}
	n := sizes[vsymChoose(len(sizes))]
	payload := make([]byte, n)
	for i := range payload {
		payload[i] = byte(i * 31)
	}
	payload[0], payload[n-1] = vsymU8(), vsymU8()
	item := secs2.B(payload)
	sid, sys := vsymU16(), sym4()
	msg, err := NewDataMessage(vsymU8()&0x7F, 1, false, sid, sys, item)
	vsymAssert(err == nil, "large-message-built")
	if err != nil {
		return
	}
	vsymReach("checked")
	body := item.ToBytes()
	got := msg.ToBytes()
	total := uint32(10 + len(body))
	vsymAssert(len(got) == 4+int(total), "frame-length")
	vsymAssert(got[0] == byte(total>>24) && got[1] == byte(total>>16) && got[2] == byte(total>>8) && got[3] == byte(total), "length-prefix-big-endian-all-four-bytes")
	wire := flatten(buildFrameBuffers(msg))
	vsymAssert(len(wire) == len(got), "socket-length")
	if len(wire) == len(got) {
		for _, i := range []int{0, 1, 2, 3, 4, 13, 14, len(got) - 1} {
			vsymAssert(wire[i] == got[i], "socket-bytes-equal-ToBytes")
		}
	}
	dec, derr := DecodeHSMSMessage(got)
	vsymAssert(derr == nil && dec != nil, "large-frame-decodes")
	if derr == nil && dec != nil {
		back := dec.ToBytes()
		vsymAssert(len(back) == len(got) && back[1] == got[1] && back[2] == got[2] && back[len(back)-1] == got[len(got)-1], "large-frame-reserialises")
	}
	mb, merr := msg.Codec().MarshalBinary()
	vsymAssert(merr == nil && len(mb) == len(got) && mb[1] == got[1], "marshal-large")
}

// VerifC03_Builder: the derive/build route with every header-shaping setter taking an ARBITRARY
// value (stream over all 256 values, function, W-bit, session id, system bytes, each setter applied
// or not): Build rejects exactly the combinations NewDataMessage rejects for the resulting fields
// (stream above 127, W-bit with an even function) and otherwise yields the frame of those fields,
// the untouched ones inherited from the base message.
func VerifC03_Builder() {
	vsymExpect("built")
	vsymExpect("refused")
	bs, bf := vsymU8()&0x7F, vsymU8()
	bw := vsymBool()
	vsymAssume(!bw || bf%2 == 1)
	bsid, bsys := vsymU16(), sym4()
	x := vsymU8()
	base, err := NewDataMessage(bs, bf, bw, bsid, bsys, secs2.U1(x))
	vsymAssert(err == nil, "base-ok")
	if err != nil {
		return
	}
	stream, function, w, sid, sys := bs, bf, bw, bsid, bsys
	b := base.Derive()
	if vsymBool() {
		stream = vsymU8()
		b = b.WithStream(stream)
	}
	if vsymBool() {
		function = vsymU8()
		b = b.WithFunction(function)
	}
	if vsymBool() {
		w = vsymBool()
		b = b.WithWaitBit(w)
	}
	if vsymBool() {
		sid = vsymU16()
		b = b.WithSessionID(sid)
	}
	if vsymBool() {
		sys = sym4()
		b = b.WithSystemBytes(sys)
	}
	m, berr := b.Build()
	invalid := stream > 127 || (w && function%2 == 0)
	vsymAssert((berr != nil) == invalid, "builder-rejects-exactly-the-invalid-combinations")
	if berr != nil {
		vsymReach("refused")
		vsymAssert(m == nil, "error-xor-message")
		return
	}
	vsymReach("built")
	b2 := stream
	if w {
		b2 |= 0x80
	}
	assertBytes(m.ToBytes(), refFrame(sid, b2, function, 0, 0, sys, secs2.U1(x).ToBytes()), "built-frame")
	// and the same fields through the direct constructor
	d, derr := NewDataMessage(stream, function, w, sid, sys, secs2.U1(x))
	vsymAssert(derr == nil && d != nil, "direct-constructor-agrees")
	if d != nil {
		assertBytes(d.ToBytes(), m.ToBytes(), "builder-equals-direct-constructor")
	}
}
