//go:build verif

package hsms

// ---- C04 (a): frame decode entry points on arbitrary bytes ----

const c04Cap = 16777215 // the E5 single-item size limit the library reuses as the frame cap

func c04DefinedSType(s byte) bool {
	return s == 0 || (s >= 1 && s <= 7) || s == 9
}

// c04CheckAccepted checks what an accepted frame decodes to, against the raw bytes.
func c04CheckAccepted(m Message, payload []byte, tag string) {
	vsymAssert(m != nil, tag+"message-non-nil")
	if m == nil {
		return
	}
	var h [10]byte
	copy(h[:], payload[:10])
	vsymAssert(m.HeaderBytes() == h, tag+"header-bytes-kept")
	vsymAssert(byte(m.Type()) == payload[5], tag+"type-is-stype")
	vsymAssert(m.SessionID() == uint16(payload[0])<<8|uint16(payload[1]), tag+"session-id")
	dm, isData := m.ToDataMessage()
	vsymAssert(isData == (payload[5] == 0), tag+"data-iff-stype-0")
	out := m.ToBytes()
	if isData && dm != nil {
		// byte-identical re-serialisation
		vsymAssert(len(out) == 4+len(payload), tag+"data-reserialise-length")
		if len(out) == 4+len(payload) {
			n := uint32(len(payload))
			vsymAssert(out[0] == byte(n>>24) && out[1] == byte(n>>16) && out[2] == byte(n>>8) && out[3] == byte(n), tag+"data-reserialise-lenfield")
			for i := range payload {
				vsymAssert(out[4+i] == payload[i], tag+"data-reserialise-bytes")
			}
		}
		vsymAssert(dm.BodyLen() == len(payload)-10, tag+"bodylen")
		// the body error (if any) is the same value for every holder, on every call
		it1, e1 := dm.Item()
		it2, e2 := dm.Item()
		vsymAssert(e1 == e2 && it1 == it2, tag+"item-stable-across-calls")
		vsymAssert(dm.DecodeErr() == e1, tag+"decodeerr-same-error")
		c1 := dm.WithSessionID(vsymU16())
		c2 := dm.WithSystemBytes([4]byte{vsymU8(), 1, 2, 3})
		i3, e3 := c1.Item()
		i4, e4 := c2.Item()
		vsymAssert(e3 == e1 && e4 == e1 && i3 == it1 && i4 == it1, tag+"copies-share-decode-result")
		vsymAssert((e1 == nil) != (it1 == nil) || (e1 == nil && it1 != nil), tag+"item-xor-error")
		if e1 != nil {
			vsymReach("bad-body-accepted-at-frame-level")
		}
		if len(payload) == 10 {
			vsymAssert(e1 == nil && it1 != nil && it1.IsEmpty(), tag+"empty-body-gives-empty-item")
		}
	} else {
		// control: header-only serialisation (a trailing body, if any, is not carried)
		vsymAssert(len(out) == 14, tag+"control-serialises-to-14")
		if len(out) == 14 {
			vsymAssert(out[0] == 0 && out[1] == 0 && out[2] == 0 && out[3] == 10, tag+"control-lenfield")
			for i := 0; i < 10; i++ {
				vsymAssert(out[4+i] == payload[i], tag+"control-header-bytes")
			}
		}
	}
}

// VerifC04_DecodeMessage: DecodeHSMSMessage on every byte string of length 0..L.
func VerifC04_DecodeMessage() {
	vsymExpect("accepted")
	vsymExpect("rejected")
	vsymExpect("bad-body-accepted-at-frame-level")
	max := 19
	if vsymTier() == 1 {
		max = 20 // 6 body bytes; 22 (8 body bytes) did not finish in 45 minutes
	}
	n := vsymChoose(max + 1)
	data := vsymBytes(n)
	keep := append([]byte(nil), data...)
	vsymAllocBound(64*n + 4096)
	m, err := DecodeHSMSMessage(data)
	vsymAllocBound(-1)
	wf := false
	if n >= 14 {
		lf := uint32(data[0])<<24 | uint32(data[1])<<16 | uint32(data[2])<<8 | uint32(data[3])
		wf = uint64(lf) == uint64(n-4) && lf >= 10 && lf <= c04Cap && data[8] == 0 && c04DefinedSType(data[9])
	}
	vsymAssert((err == nil) == wf, "accepts-exactly-the-well-formed-frames")
	for i := range keep {
		vsymAssert(data[i] == keep[i], "input-untouched")
	}
	if err != nil {
		vsymReach("rejected")
		vsymAssert(m == nil, "error-xor-message")
		return
	}
	vsymReach("accepted")
	c04CheckAccepted(m, keep[4:], "msg:")
	// the decoded message does not alias the caller's buffer
	for i := range data {
		data[i] ^= 0xFF
	}
	if m != nil {
		out := m.ToBytes()
		if dm, ok := m.ToDataMessage(); ok && dm != nil && len(out) == len(keep) {
			for i := 4; i < len(keep); i++ {
				vsymAssert(out[i] == keep[i], "decoded-message-independent-of-input-buffer")
			}
		}
	}
}

// VerifC04_DecodePayload: DecodeHSMSPayload / DecodeOwnedHSMSPayload on every byte string of
// length 0..L (no length prefix).
func VerifC04_DecodePayload() {
	vsymExpect("accepted")
	vsymExpect("rejected")
	max := 15
	if vsymTier() == 1 {
		max = 16
	}
	n := vsymChoose(max + 1)
	p := vsymBytes(n)
	keep := append([]byte(nil), p...)
	vsymAllocBound(64*n + 4096)
	m, err := DecodeHSMSPayload(p)
	vsymAllocBound(-1)
	wf := n >= 10 && p[4] == 0 && c04DefinedSType(p[5])
	vsymAssert((err == nil) == wf, "payload-accepts-exactly-the-well-formed")
	owned := append([]byte(nil), keep...)
	m2, err2 := DecodeOwnedHSMSPayload(owned)
	vsymAssert((err2 == nil) == (err == nil), "owned-agrees-on-acceptance")
	if err != nil {
		vsymReach("rejected")
		vsymAssert(m == nil && m2 == nil, "error-xor-message")
		return
	}
	vsymReach("accepted")
	c04CheckAccepted(m, keep, "payload:")
	if err2 == nil {
		c04CheckAccepted(m2, keep, "owned:")
	}
}

// VerifC04_LengthField: all 2^32 length-field values against a fixed 16-byte buffer: only the
// consistent one is accepted, and nothing is allocated from the claimed length.
func VerifC04_LengthField() {
	vsymExpect("accepted")
	vsymExpect("rejected")
	lf := vsymU32()
	data := make([]byte, 16)
	data[0], data[1], data[2], data[3] = byte(lf>>24), byte(lf>>16), byte(lf>>8), byte(lf)
	data[10], data[11] = vsymU8(), vsymU8()
	vsymAllocBound(4096)
	m, err := DecodeHSMSMessage(data)
	vsymAllocBound(-1)
	vsymAssert((err == nil) == (lf == 12), "only-the-consistent-length-accepted")
	if err == nil {
		vsymReach("accepted")
		vsymAssert(m != nil, "message")
	} else {
		vsymReach("rejected")
	}
}
