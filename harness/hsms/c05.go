//go:build verif

package hsms

import "sync/atomic"

// ---- C05: the connection state word follows the E37 diagram under every interleaving of the
// supervisor's serial event processing with the synchronous commits ----

// c05Sup builds a supervisor that is NOT running: the harness plays the run() goroutine by popping
// events and calling the real step(), so every interleaving point between run() and the
// committing goroutines is a choice of the harness.
type c05Sup struct {
	s       *supervisor
	reacts  []stateChange
	word    []ConnState // the state word after every atomic action that may write it
	closeAt int         // index in word at which evClose had been processed (-1: not yet)
	// a SelectLost commit succeeded after the last Select commit (its evSelectAccepted may still be queued)
	selectLostSinceSelect bool
	pending               int // queued events other than evClose, not yet processed
}

func newC05() *c05Sup {
	h := &c05Sup{closeAt: -1}
	var handlers atomic.Pointer[[]StateChangeHandler]
	h.s = newSupervisor(func(prev, next ConnState) { h.reacts = append(h.reacts, stateChange{prev, next}) }, &handlers)
	h.word = append(h.word, h.s.State())
	return h
}

func (h *c05Sup) obs() { h.word = append(h.word, h.s.State()) }

func c05Edge(a, b ConnState) bool {
	switch {
	case a == b:
		return true
	case a == NotConnectedState && b == NotSelectedState:
		return true
	case a == NotSelectedState && b == SelectedState:
		return true
	case a == SelectedState && b == NotSelectedState:
		return true
	case a == NotSelectedState && b == NotConnectedState:
		return true
	case a == SelectedState && b == NotConnectedState:
		return true
	}
	return false
}

// interfere performs one synchronous action another goroutine may perform at this instant.
// 0: nothing, 1: TCPUp commit, 2: Select commit, 3: SelectLost commit, 4: TCPDown, 5: T7 expiry.
func (h *c05Sup) interfere(k int) {
	before := h.s.State()
	switch k {
	case 1:
		// rely: a new generation's TCP comes up only after the events of the previous generation
		// were processed (the reconnect loop is started by the reaction to the first generation-
		// ending event and sleeps at least the initial backoff before it dials, while run() drains
		// the queue without blocking). A pending evClose is NOT excluded: Close may race TCPUp.
		vsymAssume(h.pending == 0)
		ok := h.s.CommitConnected()
		if ok {
			h.pending++
		}
		h.obs()
		vsymAssert(ok == (before == NotConnectedState && h.closeAt < 0), "tcp-up-commits-exactly-from-not-connected")
		if ok {
			vsymAssert(h.s.State() == NotSelectedState, "tcp-up-takes-effect-at-once")
		}
	case 2:
		ok := h.s.CommitSelected()
		h.obs()
		vsymAssert(ok == (before == NotSelectedState && h.closeAt < 0), "select-commits-exactly-from-not-selected")
		if ok {
			vsymAssert(h.s.State() == SelectedState, "select-takes-effect-at-once")
			h.selectLostSinceSelect = false
			h.pending++
		}
	case 3:
		ok := h.s.CommitSelectLost()
		h.obs()
		vsymAssert(ok == (before == SelectedState && h.closeAt < 0), "select-lost-commits-exactly-from-selected")
		if ok {
			vsymAssert(h.s.State() == NotSelectedState, "select-lost-takes-effect-at-once")
			h.selectLostSinceSelect = true
			h.pending++
		}
	case 4:
		// rely: TCPDown is reported for a live TCP generation only
		vsymAssume(before != NotConnectedState)
		h.s.inject(evDisconnect)
		h.pending++
	case 5:
		vsymAssume(before != NotConnectedState)
		h.s.inject(evT7Timeout)
		h.pending++
	}
}

// stepOne pops one queued event and runs the real step on it, with up to two interfering actions
// placed in the window between step's load and its write (the repo's own seam). It returns false
// when the queue is empty.
func (h *c05Sup) stepOne(k1, k2 int) bool {
	if len(h.s.events) == 0 {
		return false
	}
	ev := <-h.s.events
	if ev != evClose {
		h.pending--
	}
	wasClosed := h.s.closed
	nNotify := len(h.s.notify)
	nReact := len(h.reacts)
	dropped := h.s.droppedNotify.Load()
	lastReacted := h.s.lastReacted
	var atWrite ConnState
	selectedInWindow := false
	h.s.testHookAfterStateLoad = func(fsmEvent) {
		h.interfere(k1)
		h.interfere(k2)
		atWrite = h.s.State()
		selectedInWindow = atWrite == SelectedState
	}
	pre := h.s.State()
	h.s.step(ev)
	h.s.testHookAfterStateLoad = nil
	post := h.s.State()
	h.obs()
	if wasClosed {
		vsymAssert(post == atWrite || post == pre, "closed-supervisor-never-moves-the-state")
		vsymAssert(len(h.reacts) == nReact && len(h.s.notify) == nNotify, "closed-supervisor-never-notifies")
		return true
	}
	// what processing an event may do to the state word
	switch ev {
	case evTCPUp, evSelectAccepted, evSelectLost:
		// the cause took effect when it was committed; processing the event later must not move
		// the state again (no replay, no undo)
		if ev == evSelectAccepted && atWrite == NotSelectedState && h.selectLostSinceSelect {
			vsymRegion("staleSelectAcceptedAfterSelectLost")
		}
		vsymAssert(post == atWrite, "processing-a-committed-event-does-not-move-the-state")
	case evDisconnect:
		vsymAssert(post == NotConnectedState || post == atWrite, "disconnect-only-moves-to-not-connected")
		// a disconnect reported for a connected link takes effect when it is processed, whatever
		// commit lands in the window (the socket is gone): it is never abandoned
		if pre != NotConnectedState {
			vsymAssert(post == NotConnectedState, "disconnect-of-a-connected-link-takes-effect")
			vsymAssert(h.s.lastReacted == NotConnectedState, "disconnect-is-reacted-to")
		}
	case evT7Timeout:
		vsymAssert(post == atWrite || (atWrite == NotSelectedState && post == NotConnectedState), "t7-only-moves-not-selected-to-not-connected")
		if selectedInWindow {
			vsymAssert(post == SelectedState, "selected-session-never-disconnected-by-t7")
		}
	case evClose:
		vsymAssert(post == NotConnectedState, "close-moves-to-not-connected")
		vsymAssert(h.s.closed, "close-latches")
		h.closeAt = len(h.word) - 1
	}
	// notifications: deduped on the last reported state, never a self-transition, chained
	newN := len(h.s.notify) - nNotify
	if h.s.droppedNotify.Load() == dropped {
		vsymAssert(newN == 0 || newN == 1, "at-most-one-notification-per-event")
	}
	if len(h.reacts) > nReact {
		r := h.reacts[len(h.reacts)-1]
		vsymAssert(len(h.reacts) == nReact+1, "at-most-one-reaction-per-event")
		vsymAssert(r.prev == lastReacted, "notification-prev-is-previous-next")
		vsymAssert(r.prev != r.next, "no-self-transition-notification")
		vsymAssert(h.s.lastReacted == r.next, "last-reported-state-updated")
	} else {
		vsymAssert(h.s.lastReacted == lastReacted, "last-reported-state-unchanged-without-notification")
	}
	return true
}

// finish drains the queue (no more interference) and checks the end-of-history obligations.
func (h *c05Sup) finish() {
	for h.stepOne(0, 0) {
	}
	// every observed change of the state word is an edge of the E37 diagram
	for i := 1; i < len(h.word); i++ {
		vsymAssert(c05Edge(h.word[i-1], h.word[i]), "state-changes-only-along-E37-edges")
	}
	// once handlers have drained, the last notification's next state equals State()
	if !h.s.closed {
		vsymAssert(h.s.lastReacted == h.s.State(), "last-notification-matches-state-when-quiescent")
	}
	// notification chain as delivered
	prev := NotConnectedState
	n := len(h.s.notify)
	for i := 0; i < n; i++ {
		sc := <-h.s.notify
		if h.s.droppedNotify.Load() == 0 {
			vsymAssert(sc.prev == prev, "delivered-chain-is-contiguous")
		}
		vsymAssert(sc.prev != sc.next, "delivered-no-self-transition")
		prev = sc.next
	}
	if n > 0 && !h.s.closed {
		vsymAssert(prev == h.s.State(), "last-delivered-next-equals-state")
	}
	// after close has been processed the state stays NotConnected
	if h.closeAt >= 0 {
		for i := h.closeAt; i < len(h.word); i++ {
			if h.word[i] != NotConnectedState {
				vsymRegion("commitAfterCloseLatch")
			}
		}
		for i := h.closeAt; i < len(h.word); i++ {
			vsymAssert(h.word[i] == NotConnectedState, "state-stays-not-connected-after-close")
		}
	}
	vsymReach("finished")
}

// VerifC05_Histories: every history of K actions over {process one event, TCPUp, Select commit,
// SelectLost commit, TCPDown, T7 expiry, Close} from a fresh supervisor, with every choice of two
// interfering actions inside the load-to-write window of each processed event.
func VerifC05_Histories() {
	vsymExpect("finished")
	k := 4
	h := newC05()
	closed := false
	for i := 0; i < k; i++ {
		a := vsymChoose(7)
		switch a {
		case 0:
			k1 := vsymChoose(6)
			k2 := 0
			if k1 != 0 && vsymTier() == 1 {
				k2 = vsymChoose(6)
			}
			if k1 == 1 && h.s.closed || k2 == 1 && h.s.closed {
				vsymRegion("commitAfterCloseLatch")
			}
			h.stepOne(k1, k2)
		case 6:
			if closed {
				vsymAssume(false)
			}
			closed = true
			h.s.requestClose(nil)
		default:
			h.interfere(a)
		}
	}
	h.finish()
}

// VerifC05_Step: ONE event from an ARBITRARY supervisor state (state word, last reported state,
// close latch, arbitrary event) with two arbitrary interfering actions in the window: the
// per-event obligations of stepOne hold from every state, hence along histories of any length.
func VerifC05_Step() {
	vsymExpect("finished")
	h := newC05()
	st := ConnState(vsymChoose(3))
	h.s.state.Store(uint32(st))
	h.s.lastReacted = ConnState(vsymChoose(3))
	h.s.closed = vsymBool()
	h.word[0] = st
	ev := fsmEvent(vsymChoose(6))
	// rely: an event backed by a synchronous commit is only ever queued after that commit's CAS
	// succeeded; the state observed when it is processed is whatever later causes made of it
	// rely (queue discipline, established by VerifC05_Histories from the initial state): an event
	// backed by a synchronous commit is only queued after that commit succeeded, evTCPUp before any
	// later event of its generation; so evTCPUp is never processed from NotConnected, and
	// evSelectAccepted from NotSelected only in the stale case recorded as a known finding.
	vsymAssume(!(ev == evTCPUp && st == NotConnectedState))
	vsymAssume(!(ev == evSelectAccepted && st == NotSelectedState))
	h.s.events <- ev
	if vsymBool() {
		// drop-oldest path: the notification buffer is full
		for len(h.s.notify) < cap(h.s.notify) {
			h.s.notify <- stateChange{NotConnectedState, NotSelectedState}
		}
	}
	nd := h.s.droppedNotify.Load()
	full := len(h.s.notify) == cap(h.s.notify)
	h.stepOne(vsymChoose(6), vsymChoose(6))
	if full && len(h.reacts) > 0 {
		vsymAssert(h.s.droppedNotify.Load() == nd+1, "coalescing-is-counted")
		vsymAssert(len(h.s.notify) == cap(h.s.notify), "latest-notification-still-enqueued")
	}
	vsymReach("finished")
}
