//go:build verif

package hsms

import (
	"context"
	"errors"
	"time"

	"github.com/arloliu/go-secs/v2/secs2"
)

// ---- C06: every reply-expected send gets its own reply or one definite error ----

// VerifC06_Routing: two open transactions with arbitrary (distinct) system bytes and ONE inbound
// data frame with an arbitrary header (+0..1 body byte) through the real DeliverOwnedFrame.
func VerifC06_Routing() {
	vsymExpect("primary")
	vsymExpect("reply-hit")
	vsymExpect("reply-miss")
	v := newVConnection(SelectedState)
	k1, k2 := sym4(), sym4()
	vsymAssume(k1 != k2)
	ch1 := v.e.replies.register(k1)
	ch2 := v.e.replies.register(k2)
	h := vsymBytes(10)
	h[4], h[5] = 0, 0
	body := vsymBytes(vsymChoose(2))
	frame := append(append([]byte(nil), h...), body...)
	before := v.snap()
	err := v.c.DeliverOwnedFrame(frame)
	vsymAssert(err == nil, "well-formed-data-frame-accepted")
	after := v.snap()
	vsymAssert(after.recv == before.recv+1, "recv-counter-plus-one")
	sys := [4]byte{h[6], h[7], h[8], h[9]}
	w := h[2]&0x80 != 0
	primary := w || h[3]%2 == 1
	var hdr [10]byte
	copy(hdr[:], h)
	switch {
	case primary:
		vsymReach("primary")
		vsymAssert(len(ch1) == 0 && len(ch2) == 0, "primary-never-completes-a-send")
		vsymAssert(len(v.got) == 1 && len(v.got2) == 1, "primary-reaches-every-handler-once")
		vsymAssert(len(v.ord) == 2 && v.ord[0] == 1 && v.ord[1] == 2, "handlers-in-registration-order")
		if len(v.got) == 1 {
			vsymAssert(v.got[0].HeaderBytes() == hdr, "handler-sees-the-frame")
		}
	case sys == k1 || sys == k2:
		vsymReach("reply-hit")
		hit, other := ch1, ch2
		if sys == k2 {
			hit, other = ch2, ch1
		}
		vsymAssert(len(hit) == 1 && len(other) == 0, "reply-lands-in-exactly-its-own-transaction")
		vsymAssert(len(v.got) == 0 && len(v.got2) == 0, "routed-reply-not-also-delivered-to-handlers")
		if len(hit) == 1 {
			r := <-hit
			vsymAssert(r.err == nil && r.msg != nil, "reply-result-is-a-message")
			if r.msg != nil {
				vsymAssert(r.msg.HeaderBytes() == hdr && r.msg.SystemBytes() == sys, "reply-carries-the-primary-system-bytes")
				_, isData := r.msg.(*DataMessage)
				vsymAssert(isData, "reply-is-a-data-message")
			}
			// a duplicate of the same reply is discarded (the permitted case), never delivered twice
			hit <- r
			err2 := v.c.DeliverOwnedFrame(append([]byte(nil), frame...))
			vsymAssert(err2 == nil && len(hit) == 1 && len(v.got) == 0, "duplicate-reply-discarded")
		}
	default:
		vsymReach("reply-miss")
		vsymAssert(len(ch1) == 0 && len(ch2) == 0, "unsolicited-secondary-completes-nothing")
		vsymAssert(len(v.got) == 1 && len(v.got2) == 1, "unsolicited-secondary-reaches-handlers-once")
	}
}

// VerifC06_Routing3: three open transactions with arbitrary pairwise-distinct system bytes (so
// keys that agree on any three of their four bytes are inside the quantifier) and an arbitrary
// inbound data secondary: exactly the transaction whose four system bytes all match is
// completed, with that frame, and the other two stay open; if none matches, none is completed.
func VerifC06_Routing3() {
	vsymExpect("hit")
	vsymExpect("miss")
	v := newVConnection(SelectedState)
	ks := [3][4]byte{sym4(), sym4(), sym4()}
	vsymAssume(ks[0] != ks[1])
	vsymAssume(ks[0] != ks[2])
	vsymAssume(ks[1] != ks[2])
	var chs [3]chan replyResult
	for i := range ks {
		chs[i] = v.e.replies.register(ks[i])
	}
	h := vsymBytes(10)
	h[4], h[5] = 0, 0
	h[2] &= 0x7F
	vsymAssume(h[3]%2 == 0)
	frame := append([]byte(nil), h...)
	var hdr [10]byte
	copy(hdr[:], h)
	err := v.c.DeliverOwnedFrame(frame)
	vsymAssert(err == nil, "secondary-accepted")
	sys := [4]byte{h[6], h[7], h[8], h[9]}
	want := -1
	for i := range ks {
		if sys == ks[i] {
			want = i
		}
	}
	total := 0
	for i := range chs {
		total += len(chs[i])
		if i != want {
			vsymAssert(len(chs[i]) == 0, "non-matching-transaction-stays-open")
		}
	}
	if want >= 0 {
		vsymReach("hit")
		vsymAssert(total == 1 && len(chs[want]) == 1, "reply-completes-exactly-the-matching-transaction")
		vsymAssert(len(v.got) == 0 && len(v.got2) == 0, "routed-reply-not-delivered-to-handlers")
		if len(chs[want]) == 1 {
			r := <-chs[want]
			vsymAssert(r.err == nil && r.msg != nil && r.msg.HeaderBytes() == hdr, "reply-is-the-inbound-frame")
		}
	} else {
		vsymReach("miss")
		vsymAssert(total == 0, "unmatched-secondary-completes-nothing")
		vsymAssert(len(v.got) == 1 && len(v.got2) == 1, "unmatched-secondary-reaches-handlers-once")
	}
}

// VerifC06_Reject: an inbound Reject.req for an open transaction becomes a RejectError with the
// peer's reason code for that sender only.
func VerifC06_Reject() {
	vsymExpect("hit")
	vsymExpect("miss")
	v := newVConnection(SelectedState)
	k1, k2 := sym4(), sym4()
	vsymAssume(k1 != k2)
	ch1 := v.e.replies.register(k1)
	ch2 := v.e.replies.register(k2)
	sys := sym4()
	reason := vsymU8()
	rej := NewRejectReqRaw(vsymU16(), vsymU8(), vsymU8(), sys, reason)
	hit := v.c.RouteReply(rej)
	vsymAssert(hit == (sys == k1 || sys == k2), "hit-iff-open-transaction")
	if !hit {
		vsymReach("miss")
		vsymAssert(len(ch1) == 0 && len(ch2) == 0, "miss-touches-nothing")
		return
	}
	vsymReach("hit")
	own, other := ch1, ch2
	if sys == k2 {
		own, other = ch2, ch1
	}
	vsymAssert(len(own) == 1 && len(other) == 0, "reject-reaches-only-its-sender")
	if len(own) == 1 {
		r := <-own
		var re *RejectError
		vsymAssert(r.msg == nil && errors.As(r.err, &re), "reject-surfaces-as-RejectError")
		if re != nil {
			vsymAssert(re.Reason == reason, "reject-reason-is-the-peers")
		}
	}
}

// peer behaviours at the moment the primary is written
const (
	c06Reply           = iota // the matching secondary arrives
	c06Reject                 // Reject.req for the transaction
	c06Silence                // nothing: T3 expires
	c06Drop                   // the TCP generation ends
	c06Cancel                 // the caller's context is cancelled
	c06CollidingPrimary       // a peer PRIMARY reusing the same system bytes
	c06OtherReply             // a secondary for another transaction
	c06ControlRsp             // a control response (Linktest/Select/Deselect.rsp) reusing the system bytes
	c06DupReply               // the matching secondary, twice
	c06ControlThenReply       // a colliding control response and, right behind it, the matching secondary
	c06Kinds
)

// VerifC06_WaitVT: the real SendDataMessage / SendSECS2Message (W-bit) over sendWaitReply with a
// scripted peer, under virtual time (the T3 timer is the pool timer).
func VerifC06_WaitVT() {
	vsymExpect("got-reply")
	vsymExpect("got-reject")
	vsymExpect("got-t3")
	vsymExpect("got-closed")
	vsymExpect("got-cancel")
	v := newVConnection(SelectedState)
	kind := vsymChoose(c06Kinds)
	if kind == c06ControlRsp || kind == c06ControlThenReply {
		vsymRegion("controlRspCollidesWithDataTransaction")
	}
	ctx, cancel := context.WithCancel(context.Background())
	defer cancel()
	fn := vsymU8() | 1 // odd: a primary
	stream := vsymU8() & 0x7F
	rbody := vsymU8()
	reason := vsymU8()
	stype := []byte{2, 4, 6}[vsymChoose(3)]
	var sys [4]byte
	var wroteAt int64 = -1
	t3 := v.c.cfg.Load().timers.T3
	slowWrite := vsymBool()
	v.tr.onWrite = func(w vwrite) {
		if len(w.bytes) < 14 || w.bytes[9] != 0 {
			return // not the data primary (e.g. an S9F9 notice)
		}
		if wroteAt >= 0 {
			return
		}
		// the write itself may take a while (a slow-reading peer, back-pressure): the reply timer
		// counts from the moment the primary is on the wire
		if slowWrite {
			vsymAdvance(int64(t3) / 2)
		}
		wroteAt = vsymNowNS()
		copy(sys[:], w.bytes[10:14])
		secondary := dataFrame(0xFFFF, stream, fn+1, sys, secs2.U1(rbody).ToBytes())
		switch kind {
		case c06Reply:
			_ = v.c.DeliverOwnedFrame(secondary)
		case c06DupReply:
			_ = v.c.DeliverOwnedFrame(secondary)
			_ = v.c.DeliverOwnedFrame(append([]byte(nil), secondary...))
		case c06Reject:
			v.c.RouteReply(NewRejectReqRaw(0xFFFF, 0, 0, sys, reason))
		case c06Drop:
			v.e.cancel()
		case c06Cancel:
			cancel()
		case c06CollidingPrimary:
			_ = v.c.DeliverOwnedFrame(dataFrame(0xFFFF, stream|0x80, fn, sys, nil))
			_ = v.c.DeliverOwnedFrame(dataFrame(0xFFFF, stream, fn, sys, nil))
		case c06OtherReply:
			other := sys
			other[3] ^= 1 + vsymU8()%255
			_ = v.c.DeliverOwnedFrame(dataFrame(0xFFFF, stream, fn+1, other, nil))
		case c06ControlRsp:
			c := &ControlMessage{header: [10]byte{0xFF, 0xFF, 0, 0, 0, stype, sys[0], sys[1], sys[2], sys[3]}}
			v.c.RouteReply(c)
		case c06ControlThenReply:
			c := &ControlMessage{header: [10]byte{0xFF, 0xFF, 0, 0, 0, stype, sys[0], sys[1], sys[2], sys[3]}}
			v.c.RouteReply(c)
			_ = v.c.DeliverOwnedFrame(secondary)
		}
	}
	before := v.snap()
	var reply *DataMessage
	var err error
	if vsymBool() {
		reply, err = v.c.SendDataMessage(ctx, stream, fn, true, secs2.A("p"))
	} else {
		reply, err = v.c.SendSECS2Message(ctx, secs2.NewMessage(stream, fn, true, secs2.A("p")))
	}
	after := v.snap()
	elapsed := vsymNowNS() - wroteAt
	vsymAssert(wroteAt >= 0, "primary-was-written")
	vsymAssert(len(v.tr.writes) >= 1 && len(v.tr.writes[0].bytes) >= 14 && v.tr.writes[0].bytes[6]&0x80 != 0, "primary-on-wire-has-W-bit")
	vsymAssert(!(reply == nil && err == nil), "never-nil-reply-with-nil-error")
	vsymAssert(v.e.replies.len() == 0, "transaction-deregistered-on-every-exit")
	vsymAssert(after.inflight == before.inflight && after.inflight == 0, "inflight-gauge-back-to-zero")
	vsymAssert(after.send == before.send+1, "send-counter-plus-one")
	switch kind {
	case c06Reply, c06DupReply, c06ControlThenReply:
		vsymReach("got-reply")
		vsymAssert(err == nil && reply != nil, "reply-returned")
		if reply != nil {
			vsymAssert(reply.SystemBytes() == sys && reply.Function() == fn+1 && !reply.WaitBit(), "reply-is-own-secondary")
		}
		vsymAssert(after.errc == before.errc, "no-error-counted")
		vsymAssert(len(v.got) == 0, "reply-not-delivered-to-handlers")
	case c06Reject:
		vsymReach("got-reject")
		var re *RejectError
		vsymAssert(reply == nil && errors.As(err, &re), "reject-error-returned")
		if re != nil {
			vsymAssert(re.Reason == reason, "reject-reason")
		}
		vsymAssert(after.errc == before.errc && after.drop == before.drop, "peer-reject-changes-no-counter")
	case c06Drop:
		vsymReach("got-closed")
		vsymAssert(reply == nil && errors.Is(err, ErrConnClosed), "connection-closed-error")
		vsymAssert(after.errc == before.errc, "disconnect-not-counted-as-error")
	case c06Cancel:
		vsymReach("got-cancel")
		vsymAssert(reply == nil && errors.Is(err, context.Canceled), "callers-context-error")
		vsymAssert(after.errc == before.errc, "cancel-not-counted-as-error")
	case c06Silence, c06CollidingPrimary, c06OtherReply, c06ControlRsp:
		vsymReach("got-t3")
		vsymAssert(reply == nil && errors.Is(err, ErrT3Timeout), "t3-timeout-error")
		vsymAssert(elapsed >= int64(t3), "t3-not-earlier-than-T3-after-write")
		vsymAssert(after.errc == before.errc+1, "t3-counts-one-error")
		switch kind {
		case c06CollidingPrimary:
			vsymAssert(len(v.got) == 2, "colliding-primaries-go-to-handlers")
		case c06OtherReply:
			vsymAssert(len(v.got) == 1, "foreign-reply-goes-to-handlers")
		}
	}
	_ = time.Second
}

// VerifC06_SysBytes: library-generated system bytes differ for different counter values (all
// 2^32 x 2^32 pairs) and consecutive draws differ: unique among < 2^32 open transactions.
func VerifC06_SysBytes() {
	a, b := vsymU32(), vsymU32()
	var g1, g2 sysBytesGen
	g1.n.Store(a)
	g2.n.Store(b)
	x, y := g1.next(), g2.next()
	vsymAssert((x == y) == (a == b), "distinct-counters-give-distinct-system-bytes")
	z := g1.next()
	vsymAssert(z != x, "consecutive-draws-differ")
	vsymAssert(FromSystemBytes(z) == FromSystemBytes(x)+1, "monotonic-mod-2^32")
}

// VerifC06_ControlWaitVT: a control transaction (Linktest.req) through the same wait: its own
// .rsp completes it, a Reject.req rejects it, silence gives T6 — and a DATA secondary that happens
// to reuse its system bytes is never handed back as its reply.
func VerifC06_ControlWaitVT() {
	vsymExpect("rsp")
	vsymExpect("t6")
	v := newVConnection(vsymChooseState())
	kind := vsymChoose(4)
	sys := sym4()
	reason := vsymU8()
	v.tr.onWrite = func(w vwrite) {
		switch kind {
		case 0:
			v.c.RouteReply(&ControlMessage{header: [10]byte{0xFF, 0xFF, 0, 0, 0, 6, sys[0], sys[1], sys[2], sys[3]}})
		case 1:
			v.c.RouteReply(NewRejectReqRaw(0xFFFF, 0, 5, sys, reason))
		case 2:
			// a data secondary with the same system bytes (only deliverable while Selected)
			_ = v.c.DeliverOwnedFrame(dataFrame(0xFFFF, 1, 2, sys, nil))
		}
	}
	before := v.snap()
	reply, err := v.c.WriteMessage(context.Background(), NewLinktestReq(sys))
	after := v.snap()
	vsymAssert(len(v.tr.writes) == 1, "control-send-not-gated-by-selected-state")
	vsymAssert(!(reply == nil && err == nil), "never-nil-reply-with-nil-error")
	vsymAssert(v.e.replies.len() == 0, "transaction-deregistered")
	vsymAssert(after.inflight == before.inflight && after.send == before.send && after.errc == before.errc, "control-transaction-touches-no-data-counter")
	switch kind {
	case 0:
		vsymReach("rsp")
		vsymAssert(err == nil && reply != nil && reply.Type() == LinktestRspType && reply.SystemBytes() == sys, "own-rsp-returned")
	case 1:
		var re *RejectError
		vsymAssert(reply == nil && errors.As(err, &re) && re.Reason == reason, "reject-error")
	default:
		vsymReach("t6")
		vsymAssert(reply == nil && errors.Is(err, ErrT6Timeout), "t6-timeout")
	}
}

func vsymChooseState() ConnState {
	return []ConnState{NotSelectedState, SelectedState}[vsymChoose(2)]
}

// VerifC06_RaceVT: timing of the peer's answer, of a disconnect and of the caller's cancellation
// relative to the send itself. A W-bit send runs in its own goroutine; a second goroutine performs
// one or two events back to back {matching reply, reject, generation end, caller cancel} at an
// arbitrary instant: ONE preemption is placed before each call instruction the sender executes
// (from its first instruction: before the transaction is registered, between registration and the
// write, after the write, inside the wait), or the events happen when the sender first blocks.
// Whatever the instant: the send returns exactly one documented outcome, never (nil, nil); a reply
// reaches exactly one recipient (the sender, or the handlers once when it arrived before the
// transaction existed); the transaction is deregistered; the in-flight gauge is back to zero.
func VerifC06_RaceVT() {
	vsymExpect("got-reply")
	vsymExpect("got-t3")
	vsymExpect("got-closed")
	vsymExpect("got-cancel")
	vsymExpect("got-reject")
	K := 160
	v := newVConnection(SelectedState)
	ctx, cancel := context.WithCancel(context.Background())
	defer cancel()
	fn := vsymU8() | 1
	stream := vsymU8() & 0x7F
	reason := vsymU8()
	// the system bytes the library will draw for this send
	var sys [4]byte
	nx := v.c.sysGen.n.Load() + 1
	sys[0], sys[1], sys[2], sys[3] = byte(nx>>24), byte(nx>>16), byte(nx>>8), byte(nx)
	ev1 := vsymChoose(4)     // 0 reply, 1 reject, 2 generation end, 3 cancel
	ev2 := vsymChoose(5) - 1 // -1 none, else a second event right behind the first
	vsymAssume(ev2 != ev1)
	k := vsymChoose(K)
	before := v.snap()
	answeredAfterWrite := false // the peer's answer was delivered after the primary was on the wire
	do := func(e int) {
		switch e {
		case 0:
			answeredAfterWrite = len(v.tr.writes) > 0
			_ = v.c.DeliverOwnedFrame(dataFrame(0xFFFF, stream, fn+1, sys, secs2.U1(7).ToBytes()))
		case 1:
			answeredAfterWrite = len(v.tr.writes) > 0
			v.c.RouteReply(NewRejectReqRaw(0xFFFF, 0, 0, sys, reason))
		case 2:
			v.e.cancel()
			v.e.closeSocket()
		case 3:
			cancel()
		}
	}
	var reply *DataMessage
	var err error
	done := make(chan int, 2)
	vsymPreemptAt(k)
	go func() {
		reply, err = v.c.SendDataMessage(ctx, stream, fn, true, secs2.A("p"))
		done <- 0
	}()
	go func() {
		do(ev1)
		if ev2 >= 0 {
			do(ev2)
		}
		done <- 1
	}()
	<-done
	<-done
	vsymPreemptAt(-1)
	vsymPreemptCovered(K)
	after := v.snap()
	has := func(e int) bool { return ev1 == e || ev2 == e }
	vsymAssert((reply == nil) != (err == nil), "exactly-one-of-reply-and-error")
	vsymAssert(v.e.replies.len() == 0, "transaction-deregistered-on-every-exit")
	vsymAssert(after.inflight == 0 && before.inflight == 0, "inflight-gauge-back-to-zero")
	var re *RejectError
	switch {
	case reply != nil:
		vsymReach("got-reply")
		vsymAssert(has(0), "a-reply-is-returned-only-if-the-peer-sent-one")
		vsymAssert(reply.SystemBytes() == sys && reply.Function() == fn+1 && !reply.WaitBit(), "reply-is-own-secondary")
		vsymAssert(len(v.got) == 0, "reply-reached-the-sender-only")
	case errors.As(err, &re):
		vsymReach("got-reject")
		vsymAssert(has(1) && re.Reason == reason, "reject-error-only-from-the-peers-reject")
	case errors.Is(err, ErrT3Timeout):
		vsymReach("got-t3")
		// only possible when whatever the peer sent arrived before the transaction existed
		vsymAssert(!has(2) && !has(3), "t3-only-when-neither-disconnect-nor-cancel-happened")
		if has(0) {
			vsymAssert(len(v.got) == 1, "early-reply-went-to-the-handlers-exactly-once")
		}
	case errors.Is(err, context.Canceled):
		vsymReach("got-cancel")
		vsymAssert(has(3), "cancel-error-only-if-the-caller-cancelled")
	case errors.Is(err, ErrConnClosed) || errors.Is(err, ErrNotSelectedState) || errors.Is(err, ErrNotOpen):
		vsymReach("got-closed")
		vsymAssert(has(2), "closed-error-only-if-the-generation-ended")
	default:
		vsymAssert(false, "error-is-one-of-the-documented-outcomes")
	}
	if has(0) {
		got := len(v.got)
		if reply != nil {
			got++
		}
		vsymAssert(got <= 1, "reply-never-reaches-two-recipients")
	}
	// a peer can only answer what it has seen: an answer that arrives after the primary was written,
	// with nothing else competing, is what the send returns
	if ev2 < 0 && answeredAfterWrite {
		if ev1 == 0 {
			vsymAssert(reply != nil, "answer-after-the-write-always-reaches-the-sender")
		} else if ev1 == 1 {
			vsymAssert(re != nil, "reject-after-the-write-always-reaches-the-sender")
		}
	}
}
