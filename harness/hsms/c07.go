//go:build verif

package hsms

import (
	"context"
	"errors"

	"github.com/arloliu/go-secs/v2/secs2"
)

// ---- C07 (outbound half): data-sending calls while not Selected put nothing on the wire ----

// c07Call invokes one of the six data-sending entry points.
func c07Call(v *vconnection, ep int, ctx context.Context, stream, fn byte, w bool, primary *DataMessage) error {
	switch ep {
	case 0:
		_, err := v.c.SendDataMessage(ctx, stream, fn, w, secs2.U1(1))
		return err
	case 1:
		return v.c.SendDataMessageAsync(ctx, stream, fn, w, secs2.U1(1))
	case 2:
		_, err := v.c.SendSECS2Message(ctx, secs2.NewMessage(stream, fn, w, secs2.U1(1)))
		return err
	case 3:
		return v.c.ForwardDataMessage(ctx, primary)
	case 4:
		return v.c.ForwardDataMessageAsync(ctx, primary)
	default:
		return v.c.ReplyDataMessage(ctx, primary, secs2.U1(2))
	}
}

// VerifC07_OutboundVT: every entry point x every FSM state x epoch present/absent x a state flip
// landing between the pre-write gate and the write (the repo's own test seam). Virtual time only
// matters for the Selected + W-bit case (which then waits for T3).
func VerifC07_OutboundVT() {
	vsymExpect("refused-b1")
	vsymExpect("refused-b2")
	vsymExpect("not-open")
	vsymExpect("sent")
	ep := vsymChoose(6)
	state := ConnState(vsymChoose(3))
	v := newVConnection(state)
	noEpoch := vsymBool()
	if noEpoch {
		v.c.cur.Store(nil)
	}
	stream := vsymU8() & 0x7F
	fn := vsymU8() | 1
	w := vsymBool()
	primary, _ := NewDataMessage(stream, fn, w, 7, sym4(), secs2.U1(3))
	flip := ConnState(vsymChoose(3))
	v.c.testHookAfterWriteLock = func() { v.s.state.Store(uint32(flip)) }
	before := v.snap()
	err := c07Call(v, ep, context.Background(), stream, fn, w, primary)
	after := v.snap()
	async := ep == 1 || ep == 4 || ep == 5
	switch {
	case noEpoch:
		vsymReach("not-open")
		vsymAssert(errors.Is(err, ErrNotOpen), "not-open-error-before-first-open")
		vsymAssert(len(v.tr.writes) == 0, "nothing-on-the-wire")
		vsymAssert(after == before, "no-counter-changes-when-not-open")
	case state != SelectedState:
		vsymReach("refused-b1")
		vsymAssert(errors.Is(err, ErrNotSelectedState), "not-selected-error")
		vsymAssert(len(v.tr.writes) == 0, "nothing-on-the-wire")
		vsymAssert(len(v.e.sendCh) == 0, "nothing-enqueued")
		vsymAssert(v.e.replies.len() == 0, "nothing-registered")
		vsymAssert(after.drop == before.drop+1, "exactly-one-drop-counted")
		vsymAssert(after.send == before.send && after.errc == before.errc && after.inflight == before.inflight && after.async == before.async, "only-the-drop-counter-moves")
	case async:
		vsymReach("sent")
		vsymAssert(err == nil, "async-enqueue-ok-while-selected")
		vsymAssert(len(v.e.sendCh) == 1 && len(v.tr.writes) == 0, "async-send-enqueued-exactly-once")
		vsymAssert(after == before, "enqueue-changes-no-counter")
	case flip != SelectedState:
		vsymReach("refused-b2")
		// passed the gate, but no longer Selected at the write boundary
		vsymAssert(errors.Is(err, ErrNotSelectedState), "write-boundary-not-selected-error")
		vsymAssert(len(v.tr.writes) == 0, "nothing-on-the-wire")
		vsymAssert(after.drop == before.drop+1, "exactly-one-drop-counted-not-two")
		vsymAssert(after.send == before.send && after.errc == before.errc && after.inflight == before.inflight, "only-the-drop-counter-moves")
		vsymAssert(v.e.replies.len() == 0, "transaction-deregistered")
	default:
		vsymReach("sent")
		vsymAssert(len(v.tr.writes) == 1, "one-frame-on-the-wire")
		vsymAssert(after.send == before.send+1 && after.drop == before.drop, "send-counted-once")
		if len(v.tr.writes) == 1 {
			vsymAssert(v.tr.writes[0].conn == v.conn, "written-on-this-generations-socket")
		}
		if w && ep != 3 {
			vsymAssert(errors.Is(err, ErrT3Timeout), "unanswered-wbit-send-times-out")
		} else {
			vsymAssert(err == nil, "fire-and-forget-succeeds")
		}
	}
}

// VerifC07_ControlUnaffected: control messages reach the transport in every FSM state.
func VerifC07_ControlUnaffected() {
	vsymExpect("checked")
	state := ConnState(vsymChoose(3))
	v := newVConnection(state)
	sys := sym4()
	var m Message
	switch vsymChoose(3) {
	case 0:
		m = NewSeparateReq(vsymU16(), sys)
	case 1:
		m = NewRejectReqRaw(vsymU16(), 0, vsymU8(), sys, 4)
	default:
		r, _ := NewSelectRsp(NewSelectReq(vsymU16(), sys), vsymU8())
		m = r
	}
	before := v.snap()
	vsymReach("checked")
	if vsymBool() {
		vsymAssert(v.c.SendAsync(context.Background(), m) == nil && len(v.e.sendCh) == 1, "control-enqueued-in-every-state")
	} else {
		vsymAssert(v.c.WriteMessageNoReply(context.Background(), m) == nil, "control-written-in-every-state")
		vsymAssert(len(v.tr.writes) == 1, "control-frame-on-the-wire")
		if len(v.tr.writes) == 1 {
			assertBytes(v.tr.writes[0].bytes, m.ToBytes(), "control-wire")
		}
	}
	vsymAssert(v.snap() == before, "control-traffic-touches-no-data-counter")
}
