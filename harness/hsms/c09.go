//go:build verif

package hsms

import (
	"context"
	"errors"
	"net"
	"time"

	"github.com/arloliu/go-secs/v2/secs2"
)

// ---- C09: nothing crosses TCP generations ----

// c09End ends generation e the way the library does it: the real non-blocking teardown
// initiator (cancel ctx, close+nil the socket, seal), or one of its two observable halves alone
// (the instants between them are points at which a stale sender may run).
func c09End(e *epoch, how int) {
	switch how {
	case 0:
		e.cancel()
	case 1:
		e.closeSocket()
	default:
		e.cancel()
		e.closeSocket()
	}
}

// c09NextGen publishes a fresh live generation with its own socket, as connectLoop does.
func c09NextGen(v *vconnection) (*epoch, *vnc) {
	e2 := newEpoch(context.Background(), vlog{}, 4)
	c2 := &vnc{id: 2}
	e2.setConn(c2)
	v.c.cur.Store(e2)
	return e2, c2
}

// VerifC09_StaleWrite: a sender pinned to generation 1 (synchronous writeFrame, or the async
// drain loop with queued frames) runs after generation 1 ended and generation 2 was published:
// nothing is ever written on generation 2's socket, nothing queued on generation 1 is flushed.
func VerifC09_StaleWrite() {
	vsymExpect("sync")
	vsymExpect("drain")
	v := newVConnection(SelectedState)
	e1 := v.e
	how := vsymChoose(3)
	msgD, _ := NewDataMessage(1, 1, false, 1, sym4(), secs2.U1(vsymU8()))
	var msg Message = msgD
	if vsymBool() {
		msg = NewSeparateReq(1, sym4())
	}
	maxQueued := 3 // 0..3 queued frames (thorough: 0..4, the capacity the harness gives sendCh: a 5th offer with no reader blocks the harness itself)
	if vsymTier() == 1 {
		maxQueued = 4
	}
	queued := vsymChoose(maxQueued + 1)
	for i := 0; i < queued; i++ {
		e1.sendCh <- &sendRequest{msg: msg}
	}
	c09End(e1, how)
	_, c2 := c09NextGen(v)
	before := v.snap()
	if vsymBool() {
		vsymReach("sync")
		err := v.c.writeFrame(context.Background(), e1, msg)
		vsymAssert(errors.Is(err, ErrConnClosed), "stale-sync-write-fails-with-connection-closed")
	} else {
		vsymReach("drain")
		if how == 1 {
			// the drain loop only ends with its generation's ctx; end it after the frames were offered
			e1.cancel()
		}
		v.c.drainSendCh(e1.ctx, e1)
		vsymAssert(v.snap().async <= before.async+uint64(queued), "at-most-one-async-error-per-queued-frame")
	}
	for _, w := range v.tr.writes {
		vsymAssert(w.conn != c2, "never-written-on-the-later-generations-socket")
	}
	vsymAssert(len(v.tr.writes) == 0, "stale-frames-discarded-not-flushed")
	vsymAssert(v.snap().send == before.send, "no-send-counted")
}

// VerifC09_StaleReplyVT: a W-bit send started on generation 1 is still waiting when generation 1
// ends and generation 2 is published; a reply (same system bytes) received on generation 2 must
// not complete it: it ends promptly with the connection-closed error.
func VerifC09_StaleReplyVT() {
	vsymExpect("closed")
	v := newVConnection(SelectedState)
	e1 := v.e
	how := vsymChoose(3)
	var sys [4]byte
	var e2 *epoch
	lateHit := false
	v.tr.onWrite = func(w vwrite) {
		if len(w.bytes) < 14 || e2 != nil {
			return
		}
		copy(sys[:], w.bytes[10:14])
		if how == 1 {
			e1.closeSocket()
			e1.cancel()
		} else {
			c09End(e1, how)
		}
		e2, _ = c09NextGen(v)
		// the peer's reply for those system bytes arrives on the NEW generation
		_ = v.c.DeliverOwnedFrame(dataFrame(0xFFFF, 1, 2, sys, nil))
		lateHit = len(v.got) == 0
	}
	reply, err := v.c.SendDataMessage(context.Background(), 1, 1, true, secs2.A("x"))
	vsymReach("closed")
	vsymAssert(reply == nil, "no-reply-from-another-generation")
	vsymAssert(errors.Is(err, ErrConnClosed), "waiting-send-ends-with-connection-closed")
	vsymAssert(!lateHit, "late-reply-on-new-generation-treated-as-unsolicited")
	vsymAssert(len(v.got) == 1, "late-reply-delivered-to-handlers")
	vsymAssert(e1.replies.len() == 0, "old-transaction-deregistered")
	vsymAssert(e2 != nil && e2.replies.len() == 0, "new-generation-registry-untouched")
	vsymAssert(v.c.Metrics().DataMsgInflightCount() == 0, "inflight-gauge-zero")
	vsymAssert(vsymNowNS() < int64(v.c.cfg.Load().timers.T3), "ended-promptly-not-at-T3")
}

// VerifC09_SendAsyncAfterEnd: SendAsync bound to an ended generation returns the closed error and
// enqueues nothing that a later generation could flush.
func VerifC09_SendAsyncAfterEnd() {
	vsymExpect("checked")
	v := newVConnection(SelectedState)
	e1 := v.e
	// fill the queue so that the enqueue itself cannot win the select
	m, _ := NewDataMessage(1, 1, false, 1, sym4(), nil)
	for len(e1.sendCh) < cap(e1.sendCh) {
		e1.sendCh <- &sendRequest{msg: m}
	}
	e1.cancel()
	err := v.c.SendAsync(context.Background(), m)
	vsymReach("checked")
	vsymAssert(errors.Is(err, ErrConnClosed), "send-async-on-ended-generation-closed-error")
	e2, _ := c09NextGen(v)
	vsymAssert(len(e2.sendCh) == 0, "new-generation-queue-starts-empty")
}

// VerifC09_PooledStateVT: object pools (timers, and anything else the send path recycles) are shared
// across generations. A W-bit send on generation 1 has its reply routed at the very moment the
// generation ends, so it may leave without consuming it (every ready-set choice of its wait is
// explored); a new W-bit send on generation 2 to a silent peer must then end with T3, never with
// the earlier transaction's reply.
func VerifC09_PooledStateVT() {
	vsymExpect("second-send-timed-out")
	vsymPoolReuse(true)
	v := newVConnection(SelectedState)
	e1 := v.e
	first := true
	v.tr.onWrite = func(w vwrite) {
		if !first || len(w.bytes) < 14 {
			return
		}
		first = false
		var sys [4]byte
		copy(sys[:], w.bytes[10:14])
		_ = v.c.DeliverOwnedFrame(dataFrame(0xFFFF, 1, 2, sys, []byte{0xA5, 0x01, 0x77}))
		e1.cancel()
		e1.closeSocket()
	}
	r1, err1 := v.c.SendDataMessage(context.Background(), 1, 1, true, secs2.A("one"))
	vsymAssert((r1 != nil) != (err1 != nil), "first-send-reply-xor-error")
	// generation 2
	e2, _ := c09NextGen(v)
	_ = e2
	r2, err2 := v.c.SendDataMessage(context.Background(), 1, 3, true, secs2.A("two"))
	vsymReach("second-send-timed-out")
	vsymAssert(r2 == nil, "no-reply-from-the-earlier-generation")
	vsymAssert(errors.Is(err2, ErrT3Timeout), "silent-peer-means-T3")
}

// VerifC09_RaceVT: the generation ends at an ARBITRARY instant of a send. A sender goroutine makes
// one call {reply-expected send, synchronous no-reply send, asynchronous send (with the
// generation's drain loop running)}; a second goroutine, at a preemption placed before each call
// instruction the sender (and the drain loop) executes or when they first block, ends generation 1
// (context first, socket first, or the context only after the successor is up), publishes generation 2 with its own socket and delivers, on
// generation 2, a secondary carrying the system bytes the send draws. Whatever the instant:
// the frame is transmitted at most once and on ONE socket; a send whose frame went out on
// generation 1 is never completed by generation 2's reply, it ends promptly with the closed error;
// nothing queued on generation 1 is ever written on generation 2's socket, also not later.
func VerifC09_RaceVT() {
	vsymExpect("old-generation")
	vsymExpect("new-generation")
	vsymExpect("not-sent")
	K := 200
	v := newVConnection(SelectedState)
	v.tr.failClosed = true
	e1 := v.e
	c1 := v.conn
	kind := vsymChoose(3) // 0 W-bit send, 1 sync no-reply send, 2 async send
	order := vsymChoose(3) // 0 context then socket, 1 socket then context, 2 socket, successor published, THEN context
	t3 := v.c.cfg.Load().timers.T3
	var sys [4]byte
	nx := v.c.sysGen.n.Load() + 1
	sys[0], sys[1], sys[2], sys[3] = byte(nx>>24), byte(nx>>16), byte(nx>>8), byte(nx)
	k := vsymChoose(K)
	var c2 *vnc
	var reply *DataMessage
	var err error
	done := make(chan int, 2)
	if kind == 2 {
		e1.spawn(vlog{}, "sender", func(ctx context.Context) { v.c.drainSendCh(ctx, e1) })
	}
	queuedOn1AtSwitch := -1
	crossWrite := false
	v.tr.onWrite = func(w vwrite) {
		// a frame going out on generation 2's socket while its transaction sits in generation 1's registry
		if c2 != nil && w.conn == net.Conn(c2) && len(w.bytes) >= 14 && w.bytes[9] == 0 && e1.replies.len() > 0 {
			crossWrite = true
		}
	}
	vsymPreemptAt(k)
	go func() {
		switch kind {
		case 0:
			reply, err = v.c.SendDataMessage(context.Background(), 1, 1, true, secs2.A("p"))
		case 1:
			reply, err = v.c.SendDataMessage(context.Background(), 1, 1, false, secs2.A("p"))
		default:
			err = v.c.SendDataMessageAsync(context.Background(), 1, 1, false, secs2.A("p"))
		}
		done <- 0
	}()
	go func() {
		switch order {
		case 0:
			e1.cancel()
			e1.closeSocket()
		case 1:
			e1.closeSocket()
			e1.cancel()
		default:
			e1.closeSocket()
		}
		_, c2 = c09NextGen(v)
		queuedOn1AtSwitch = len(e1.sendCh)
		_ = v.c.DeliverOwnedFrame(dataFrame(0xFFFF, 1, 2, sys, nil))
		if order == 2 {
			e1.cancel()
		}
		done <- 1
	}()
	<-done
	<-done
	vsymPreemptAt(-1)
	vsymPreemptCovered(K)
	ended := vsymNowNS()
	// let everything that may still be pending happen (drain loops, timers)
	vsymAdvance(int64(2 * t3))
	on1, on2 := 0, 0
	for _, w := range v.tr.writes {
		if len(w.bytes) < 14 || w.bytes[9] != 0 || w.bytes[10] != sys[0] || w.bytes[11] != sys[1] || w.bytes[12] != sys[2] || w.bytes[13] != sys[3] {
			continue
		}
		if w.conn == net.Conn(c1) {
			on1++
		} else if c2 != nil && w.conn == net.Conn(c2) {
			on2++
		}
	}
	vsymAssert(on1+on2 <= 1, "frame-transmitted-at-most-once")
	vsymAssert(!crossWrite, "no-write-on-generation-2-for-a-transaction-registered-on-generation-1")
	if queuedOn1AtSwitch > 0 {
		vsymAssert(on2 == 0, "frame-queued-on-generation-1-never-written-on-generation-2")
	}
	switch {
	case on1 == 1:
		vsymReach("old-generation")
		if kind == 0 {
			vsymAssert(reply == nil && errors.Is(err, ErrConnClosed), "send-on-the-ended-generation-gets-the-closed-error-not-the-later-reply")
			vsymAssert(ended < int64(t3), "ended-promptly-not-at-T3")
		}
	case on2 == 1:
		vsymReach("new-generation")
		// the call bound itself to generation 2 (it had not picked a generation before the switch)
		vsymAssert(kind != 2 || len(e1.sendCh) == 0, "not-both-queued-on-1-and-written-on-2")
	default:
		vsymReach("not-sent")
		if kind != 2 {
			vsymAssert(err != nil && reply == nil, "unsent-synchronous-send-reports-an-error")
		}
	}
	if kind == 0 {
		vsymAssert((reply == nil) != (err == nil), "reply-xor-error")
	}
	vsymAssert(e1.replies.len() == 0, "old-generation-registry-empty")
	vsymAssert(v.c.Metrics().DataMsgInflightCount() == 0, "inflight-gauge-zero")
	if e := v.c.cur.Load(); e != nil && e != e1 {
		e.teardown(time.Second)
		_ = e.wait()
	}
	e1.teardown(time.Second)
	_ = e1.wait()
}
