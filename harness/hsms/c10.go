//go:build verif

package hsms

import (
	"context"
	"errors"
	"time"
)

// ---- C10: Open/Close from any state, on the real lifecycle code with a model transport under
// virtual time (one deterministic schedule per history; select choices fork) ----

type c10Conn struct {
	c  *connection
	tr *vtr
	// how the model peer behaves on each Start: 0 connect+select, 1 connect only, 2 dial refused
	peer      int
	stopHangs bool // the transport's Stop never joins (a handler wedged the receive loop)
}

func newC10(peer int) *c10Conn {
	cfg := DefaultConnectionConfig()
	cfg.logger = vlog{}
	cfg.closeTimeout = 3 * time.Second
	cfg.reconnectBackoffInitial = time.Second
	tr := &vtr{active: true}
	ci, _ := NewConnection(cfg, tr)
	h := &c10Conn{c: ci.(*connection), tr: tr, peer: peer}
	tr.startErr = func(n int) error {
		if h.peer == 2 {
			return errors.New("model: dial refused")
		}
		return nil
	}
	tr.onStart = func(rt TransportRuntime) {
		rt.TCPUp(&vnc{id: tr.starts})
		if h.peer == 0 {
			rt.CommitSelected()
		}
	}
	return h
}

type c10Stop struct {
	*vtr
	h *c10Conn
}

func (s c10Stop) Stop(ctx context.Context) error {
	s.vtr.stops++
	if s.h.stopHangs {
		<-ctx.Done()
		return ErrCloseTimeout
	}
	return nil
}

// VerifC10_HistoriesVT: histories of up to 3 calls over {Open(background), Open(wait-selected),
// Close} against a peer that selects / only connects / refuses.
func VerifC10_HistoriesVT() {
	vsymExpect("done")
	vsymExpect("double-open")
	vsymExpect("close-never-opened")
	vsymExpect("re-close")
	vsymExpect("close")
	peer := vsymChoose(3)
	h := newC10(peer)
	n := 3
	if vsymTier() == 1 {
		n = 4
	}
	open := false
	everOpened := false
	var lastCloseErr error
	closedOnce := false
	for i := 0; i < n; i++ {
		op := vsymChoose(3)
		startsBefore := h.tr.starts
		genBefore := h.c.reconnectGen.Load()
		supBefore := h.c.sup.Load()
		curBefore := h.c.cur.Load()
		t0 := vsymNowNS()
		switch op {
		case 0, 1:
			mode := OpenBackground
			ctx := context.Background()
			var cancel context.CancelFunc = func() {}
			if op == 1 {
				mode = OpenWaitSelected
				ctx, cancel = context.WithTimeout(ctx, 2*time.Second)
			}
			err := h.c.Open(ctx, mode)
			cancel()
			switch {
			case open:
				vsymReach("double-open")
				vsymAssert(errors.Is(err, ErrAlreadyOpen), "open-on-open-connection-fails-with-already-open")
				vsymAssert(h.tr.starts == startsBefore && h.c.reconnectGen.Load() == genBefore && h.c.sup.Load() == supBefore && h.c.cur.Load() == curBefore, "already-open-has-no-side-effects")
			case peer == 2 && op == 1:
				// first dial refused under wait-selected: synchronous error, nothing left running
				vsymAssert(err != nil && !errors.Is(err, ErrAlreadyOpen), "refused-first-dial-reported")
				vsymQuiesce()
				vsymAssert(h.c.State() == NotConnectedState, "failed-open-leaves-not-connected")
				vsymAssert(vsymLiveGoroutines() == 0, "failed-open-leaves-no-goroutine")
			case peer == 2 && op == 0:
				// active + background: a cold peer is retried in the background
				vsymAssert(err == nil, "background-open-tolerates-a-cold-peer")
				open, everOpened = true, true
			case peer == 1 && op == 1:
				// connected but never selected: the wait ends with the caller's deadline; lifecycle keeps running
				vsymAssert(errors.Is(err, context.DeadlineExceeded), "wait-selected-honours-callers-deadline")
				vsymAssert(h.c.State() == NotSelectedState, "link-up-not-selected")
				open, everOpened = true, true
			default:
				vsymAssert(err == nil, "open-succeeds")
				open, everOpened = true, true
				if peer == 0 {
					vsymAssert(h.c.State() == SelectedState, "reopened-or-opened-connection-selects-like-a-fresh-one")
				}
				vsymAssert(h.c.sup.Load() != supBefore, "each-open-gets-a-fresh-supervisor")
			}
		default:
			err := h.c.Close()
			elapsed := vsymNowNS() - t0
			switch {
			case !everOpened && !closedOnce && h.c.cur.Load() == nil:
				vsymReach("close-never-opened")
				vsymAssert(errors.Is(err, ErrNotOpen), "close-before-open-fails-with-not-open")
				vsymAssert(h.tr.stops == 0 && h.c.sup.Load() == supBefore, "not-open-close-has-no-side-effects")
			case !open:
				vsymReach("re-close")
				vsymAssert(err == lastCloseErr, "re-close-returns-the-retained-result")
				vsymAssert(h.tr.starts == startsBefore && h.c.reconnectGen.Load() == genBefore, "re-close-has-no-side-effects")
			default:
				vsymReach("close")
				vsymAssert(err == nil, "close-of-open-connection-clean")
				open = false
				closedOnce = true
				lastCloseErr = err
			}
			vsymAssert(elapsed <= int64(3*time.Second)+int64(time.Second), "close-returns-within-close-timeout-plus-slack")
			vsymQuiesce()
			vsymAssert(h.c.State() == NotConnectedState, "state-not-connected-after-close")
			vsymAssert(vsymLiveGoroutines() == 0, "no-library-goroutine-after-close")
			if e := h.c.cur.Load(); e != nil {
				vsymAssert(e.liveConn() == nil, "no-socket-left-open-after-close")
			}
			// nothing happens later either: no reconnect attempt pending
			s0 := h.tr.starts
			vsymAdvance(int64(30 * time.Second))
			vsymAssert(h.tr.starts == s0, "no-reconnect-attempt-after-close")
			vsymAssert(h.c.State() == NotConnectedState, "state-stays-not-connected")
		}
	}
	if open {
		_ = h.c.Close()
		vsymQuiesce()
		vsymAssert(vsymLiveGoroutines() == 0, "final-close-leaves-no-goroutine")
	}
	vsymReach("done")
}

// VerifC10_CloseBoundedVT: a transport whose Stop never joins (receive loop wedged in a handler):
// Close still returns, at the close timeout, reporting the close-timeout error; a re-Close returns
// the same retained result immediately.
func VerifC10_CloseBoundedVT() {
	vsymExpect("bounded")
	h := newC10(vsymChoose(2))
	h.stopHangs = true
	h.c.tr = c10Stop{h.tr, h}
	vsymAssert(h.c.Open(context.Background(), OpenBackground) == nil, "open-ok")
	t0 := vsymNowNS()
	err := h.c.Close()
	el := vsymNowNS() - t0
	vsymReach("bounded")
	vsymAssert(errors.Is(err, ErrCloseTimeout), "wedged-teardown-reports-close-timeout")
	vsymAssert(el >= int64(3*time.Second) && el <= int64(3*time.Second)+int64(time.Second), "close-bounded-by-close-timeout")
	vsymAssert(h.c.State() == NotConnectedState, "state-not-connected-after-bounded-close")
	t1 := vsymNowNS()
	err2 := h.c.Close()
	vsymAssert(err2 == err && vsymNowNS() == t1, "re-close-immediate-same-result")
}

// VerifC10_DropThenCloseVT: an involuntary drop starts the reconnect loop; a Close landing while
// the loop sleeps in its backoff interrupts it: no further dial, nothing left running.
func VerifC10_DropThenCloseVT() {
	vsymExpect("closed")
	h := newC10(0)
	vsymAssert(h.c.Open(context.Background(), OpenBackground) == nil, "open-ok")
	vsymAssert(h.c.State() == SelectedState, "selected")
	h.c.TCPDown(errors.New("model: peer reset"))
	vsymQuiesce()
	vsymAssert(h.c.State() == NotConnectedState, "drop-observed")
	vsymAssert(h.c.Metrics().Reconnecting() == 1, "reconnect-loop-running")
	when := vsymChoose(3)
	switch when {
	case 1:
		vsymAdvance(int64(500 * time.Millisecond)) // inside the backoff sleep
	case 2:
		vsymAdvance(int64(1500 * time.Millisecond)) // after the re-dial: a new generation is up
	}
	starts := h.tr.starts
	err := h.c.Close()
	vsymReach("closed")
	vsymAssert(err == nil, "close-clean")
	vsymQuiesce()
	vsymAssert(h.c.State() == NotConnectedState, "state-not-connected")
	vsymAssert(vsymLiveGoroutines() == 0, "no-goroutine-left")
	vsymAssert(h.c.Metrics().Reconnecting() == 0, "reconnecting-gauge-zero")
	vsymAdvance(int64(time.Minute))
	vsymAssert(h.tr.starts == starts, "no-reconnect-after-close")
	if when == 2 {
		vsymAssert(starts == 2, "re-dial-happened-before-close")
	}
}

// c10Op performs one API call: 0 Open(background), 1 Close, 2 fire-and-forget data send,
// 3 reply-expected data send (the model peer never answers: ends with T3 or the link's end),
// 4 UpdateConfigOptions (a valid and an invalid option).
func c10Op(h *c10Conn, op int) error {
	switch op {
	case 0:
		return h.c.Open(context.Background(), OpenBackground)
	case 1:
		return h.c.Close()
	case 2:
		_, err := h.c.SendDataMessage(context.Background(), 1, 1, false, nil)
		return err
	case 3:
		r, err := h.c.SendDataMessage(context.Background(), 1, 1, true, nil)
		vsymAssert((r == nil) == (err != nil), "reply-xor-error")
		return err
	default:
		e1 := h.c.UpdateConfigOptions(WithT6(7*time.Second), WithCloseTimeout(3*time.Second))
		vsymAssert(e1 == nil, "valid-reconfiguration-accepted")
		e2 := h.c.UpdateConfigOptions(WithT6(-time.Second))
		vsymAssert(e2 != nil, "invalid-reconfiguration-refused")
		return nil
	}
}

// c10Serial is the reference lifecycle (0 never opened, 1 open, 2 closed): the error CLASS an
// Open or Close returns from state st (0 nil, 1 already-open, 2 not-open) and the next state.
func c10Serial(st, op int) (class, next int) {
	switch op {
	case 0:
		if st == 1 {
			return 1, 1
		}
		return 0, 1
	default:
		switch st {
		case 0:
			return 2, 0
		case 1:
			return 0, 2
		}
		return 0, 2
	}
}

func c10Class(err error) int {
	switch {
	case err == nil:
		return 0
	case errors.Is(err, ErrAlreadyOpen):
		return 1
	case errors.Is(err, ErrNotOpen):
		return 2
	}
	return 3
}

// VerifC10_ConcurrentPairVT: two callers at once. From each lifecycle state (never opened / open /
// closed after open) two goroutines each make one call from {Open, Close, fire-and-forget send, reply-expected send, UpdateConfigOptions}; ONE preemption is
// placed before each call instruction executed by any goroutine other than the harness (the
// callers and the library's own goroutines), so the second caller and the library goroutines run
// while the first caller is anywhere inside its call. Neither call panics or deadlocks; the
// Open/Close results are those of one of the two serial orders; a send returns nil or an error;
// afterwards a Close leaves nothing running.
func VerifC10_ConcurrentPairVT() {
	vsymExpect("done")
	K := 400
	if vsymTier() == 1 {
		K = 1600
	}
	peer := vsymChoose(2)
	h := newC10(peer)
	st := vsymChoose(3)
	if st >= 1 {
		vsymAssert(h.c.Open(context.Background(), OpenBackground) == nil, "open-ok")
	}
	if st == 2 {
		vsymAssert(h.c.Close() == nil, "close-ok")
		vsymQuiesce()
	}
	nops := 3 // quick: Open, Close, fire-and-forget send; thorough: all five
	if vsymTier() == 1 {
		nops = 5
	}
	opA, opB := vsymChoose(nops), vsymChoose(nops)
	k := vsymChoose(K)
	var errA, errB error
	done := make(chan int, 2)
	vsymPreemptAt(k)
	go func() { errA = c10Op(h, opA); done <- 0 }()
	go func() { errB = c10Op(h, opB); done <- 1 }()
	<-done
	<-done
	vsymPreemptAt(-1)
	vsymPreemptCovered(K)
	ca, cb := c10Class(errA), c10Class(errB)
	if opA < 2 && opB < 2 {
		// serial order A then B, or B then A
		a1, s1 := c10Serial(st, opA)
		b1, _ := c10Serial(s1, opB)
		b2, s2 := c10Serial(st, opB)
		a2, _ := c10Serial(s2, opA)
		vsymAssert((ca == a1 && cb == b1) || (ca == a2 && cb == b2), "concurrent-open-close-results-match-a-serial-order")
	} else {
		if opA < 2 {
			vsymAssert(ca != 3, "lifecycle-call-returns-nil-or-a-lifecycle-error")
		}
		if opB < 2 {
			vsymAssert(cb != 3, "lifecycle-call-returns-nil-or-a-lifecycle-error")
		}
	}
	_ = h.c.Close()
	vsymQuiesce()
	vsymAssert(h.c.State() == NotConnectedState, "state-not-connected-after-final-close")
	vsymAssert(vsymLiveGoroutines() == 0, "no-library-goroutine-after-final-close")
	s0 := h.tr.starts
	vsymAdvance(int64(30 * time.Second))
	vsymAssert(h.tr.starts == s0, "no-reconnect-attempt-after-final-close")
	vsymReach("done")
}
