//go:build verif

package hsms

import (
	"errors"
	"math"
	"time"
)

// ---- C11: reconnect backoff and the reconnect loop ----

// VerifC11_Backoff: nextBackoffDelay as a floating-point query. For 0 < cur <= ceil <= 2^40 ns
// (about 18 minutes; T5 is a seconds-scale timer) and any multiplier on the stated grid:
// 0 < result <= ceil; for a multiplier >= 1.0 (including +Inf) additionally result >= cur, i.e.
// delays never decrease and never exceed T5.
func VerifC11_Backoff() {
	vsymExpect("growing")
	vsymExpect("weird-multiplier")
	// multiplier: sign, exponent and the top FRAC fraction bits are symbolic, the remaining fraction
	// bits are zero (quick 10 bits: multipliers on a 2^-10 grid in every binade; thorough 28 bits)
	frac := uint(10)
	vsymSolverTimeout(120000)
	if vsymTier() == 1 {
		frac = 28
		vsymSolverTimeout(900000)
	}
	cur, ceil := vsymI64(), vsymI64()
	vsymAssume(cur > 0 && cur <= ceil && ceil <= 1<<40)
	mbits := vsymU64()
	mbits &^= (uint64(1) << (52 - frac)) - 1
	m := math.Float64frombits(mbits)
	next := nextBackoffDelay(time.Duration(cur), m, time.Duration(ceil))
	vsymAssert(next > 0 && int64(next) <= ceil, "delay-positive-and-capped-at-T5")
	if m >= 1.0 {
		vsymReach("growing")
		vsymAssert(int64(next) >= cur, "delay-never-decreases")
	} else {
		vsymReach("weird-multiplier")
	}
	if m == 1.0 {
		vsymAssert(int64(next) == cur, "multiplier-one-keeps-delay")
	}
}

type c11Cfg struct {
	initial time.Duration
	mult    float64
	t5      time.Duration
}

// VerifC11_LoopVT: the real connectLoop / reconnectSleep / startConnectLoop with a model
// transport whose Start fails a chosen number of times, under virtual time.
func VerifC11_LoopVT() {
	vsymExpect("recovered")
	vsymExpect("fenced")
	cfgs := []c11Cfg{
		{100 * time.Millisecond, 2.0, 10 * time.Second},
		{3 * time.Second, 1.5, 5 * time.Second},
		{20 * time.Second, 2.0, 10 * time.Second}, // initial above T5
		{time.Second, 1.0, 10 * time.Second},      // no growth
	}
	k := cfgs[vsymChoose(len(cfgs))]
	fails := vsymChoose(4)
	count := vsymBool()
	// a Close (shutdown) or a re-Open (generation bump) lands at the loop's fence on attempt `fenceAt`
	fenceAt := vsymChoose(fails + 2) // fails+1 = never
	fenceKind := vsymChoose(2)

	v := newVConnection(NotConnectedState)
	cfg := *v.c.cfg.Load()
	cfg.reconnectBackoffInitial, cfg.reconnectBackoffMultiplier, cfg.timers.T5 = k.initial, k.mult, k.t5
	cfg.closeTimeout = time.Second
	v.c.cfg.Store(&cfg)
	v.c.cur.Store(nil)

	var startAt []int64
	var gaugeInside []int64
	v.tr.startErr = func(n int) error {
		startAt = append(startAt, vsymNowNS())
		gaugeInside = append(gaugeInside, v.c.Metrics().Reconnecting())
		if n <= fails {
			return errors.New("model: dial refused")
		}
		return nil
	}
	attempt := 0
	fenced := false
	v.c.testHookConnectLoop = func() {
		if attempt == fenceAt && fenceAt <= fails {
			fenced = true
			if fenceKind == 0 {
				v.c.shutdown.Store(true)
			} else {
				v.c.reconnectGen.Add(1)
			}
		}
		attempt++
	}
	before := v.snap()
	gen := v.c.reconnectGen.Load()
	t0 := vsymNowNS()
	v.c.connectLoop(nil, gen, nil, count)
	after := v.snap()

	vsymAssert(after.reconnecting == before.reconnecting && after.reconnecting == 0, "reconnecting-gauge-back-to-zero")
	for _, g := range gaugeInside {
		vsymAssert(g == 1, "reconnecting-gauge-positive-inside-the-loop")
	}
	// the sleeps: start at min(initial, T5), never decrease, never exceed T5
	prevT := t0
	var prevGap int64 = -1
	for i, at := range startAt {
		gap := at - prevT
		if i == 0 {
			first := k.initial
			if first > k.t5 {
				first = k.t5
			}
			vsymAssert(gap == int64(first), "first-delay-is-the-configured-initial-capped-at-T5")
		}
		vsymAssert(gap <= int64(k.t5), "delay-never-exceeds-T5")
		if prevGap >= 0 {
			vsymAssert(gap >= prevGap, "delays-never-decrease")
		}
		prevGap = gap
		prevT = at
	}
	if fenced {
		vsymReach("fenced")
		vsymAssert(len(startAt) == fenceAt, "no-dial-after-close-or-reopen")
		vsymAssert(after.reconnects == before.reconnects, "no-reconnect-counted-when-abandoned")
		if e := v.c.cur.Load(); e != nil {
			select {
			case <-e.done:
			default:
				vsymAssert(false, "no-live-generation-published-after-the-fence")
			}
		}
		return
	}
	vsymReach("recovered")
	vsymAssert(len(startAt) == fails+1, "keeps-dialing-until-the-peer-is-reachable")
	want := before.reconnects
	if count {
		want++
	}
	vsymAssert(after.reconnects == want, "reconnect-counter-plus-exactly-one-per-successful-redial")
	e := v.c.cur.Load()
	vsymAssert(e != nil, "fresh-generation-published")
	vsymAssert(v.tr.arms == fails+1, "transport-armed-once-per-generation")
	if e != nil {
		select {
		case <-e.done:
			vsymAssert(false, "published-generation-is-live")
		default:
		}
		// clean up the live generation (joins its sender goroutine)
		e.teardown(time.Second)
		_ = e.wait()
	}
}

// VerifC11_NoReconnectAfterClose: the NotConnected reaction starts a reconnect loop only for an
// involuntary drop; after Close (shutdown set) it never does.
func VerifC11_ReactVT() {
	vsymExpect("involuntary")
	vsymExpect("voluntary")
	v := newVConnection(SelectedState)
	cfg := *v.c.cfg.Load()
	cfg.closeTimeout = time.Second
	cfg.reconnectBackoffInitial = time.Second
	v.c.cfg.Store(&cfg)
	voluntary := vsymBool()
	prev := []ConnState{NotSelectedState, SelectedState}[vsymChoose(2)]
	if voluntary {
		v.c.shutdown.Store(true)
	} else {
		v.e.commsFailure.Store(true)
	}
	v.e.stopTransport = v.tr.Stop
	v.c.react(prev, NotConnectedState)
	vsymQuiesce()
	if voluntary {
		vsymReach("voluntary")
		vsymAdvance(int64(30 * time.Second))
		vsymAssert(v.tr.starts == 0, "no-reconnect-attempt-after-close")
		vsymAssert(v.c.Metrics().Reconnecting() == 0, "reconnecting-gauge-zero-after-close")
		if prev == SelectedState {
			vsymAssert(len(v.tr.writes) == 1 && len(v.tr.writes[0].bytes) == 14 && v.tr.writes[0].bytes[9] == 9, "graceful-close-from-selected-sends-separate")
		}
	} else {
		vsymReach("involuntary")
		vsymAssert(len(v.tr.writes) == 0, "no-farewell-on-comms-failure")
		vsymAssert(v.c.Metrics().Reconnecting() == 1, "reconnecting-gauge-positive-while-loop-runs")
		vsymObserve("now0", vsymNowNS())
		vsymAdvance(int64(2 * time.Second))
		vsymObserve("now1", vsymNowNS())
		vsymObserve("starts", v.tr.starts)
		vsymAssert(v.tr.starts == 1, "reconnect-dial-after-the-initial-delay")
		vsymAssert(v.c.Metrics().Reconnecting() == 0 && v.c.Metrics().Reconnects() == 1, "reconnect-counted-once")
		if e := v.c.cur.Load(); e != nil && e != v.e {
			e.teardown(time.Second)
			_ = e.wait()
		}
	}
	select {
	case <-v.e.done:
	default:
		vsymAssert(false, "dropped-generation-torn-down")
	}
	vsymAssert(v.conn.closed, "dropped-generation-socket-closed")
	vsymAssert(v.tr.stops >= 1, "transport-stopped-for-the-dropped-generation")
}
