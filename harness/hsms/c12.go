//go:build verif

package hsms

import (
	"github.com/arloliu/go-secs/v2/secs2"
)

// ---- C12 (hsms half): messages never change; lazy decode / encode is shared and happens once ----

// c12Obs flattens everything observable of a message through its public surface; outs collects
// every slice handed out so the caller can overwrite it.
func c12Obs(m Message, outs *[][]byte) []byte {
	var o []byte
	w := m.ToBytes()
	*outs = append(*outs, w)
	o = append(o, w...)
	hb := m.HeaderBytes()
	sb := m.SystemBytes()
	o = append(o, hb[:]...)
	o = append(o, sb[:]...)
	// arrays are values: scribbling on the copies the accessors returned must not matter either
	for i := range hb {
		hb[i] ^= 0xFF
	}
	for i := range sb {
		sb[i] ^= 0xFF
	}
	o = append(o, byte(m.Type()), byte(m.SessionID()>>8), byte(m.SessionID()))
	if cm, isCtl := m.(*ControlMessage); isCtl {
		id := cm.ID()
		o = append(o, byte(id>>24), byte(id>>16), byte(id>>8), byte(id))
		if cm.WaitBit() {
			o = append(o, 1)
		}
		if rc, e := cm.RejectReasonCode(); e == nil {
			o = append(o, rc)
		}
	}
	dm, ok := m.ToDataMessage()
	if !ok {
		return o
	}
	id := dm.ID()
	o = append(o, byte(id>>24), byte(id>>16), byte(id>>8), byte(id))
	if dm.WaitBit() {
		o = append(o, 1)
	}
	o = append(o, 0xDA, dm.Stream(), dm.Function(), byte(dm.BodyLen()))
	ab := dm.AppendBodyTo(make([]byte, 1, 1+dm.BodyLen()+2))
	*outs = append(*outs, ab)
	o = append(o, ab...)
	it, err := dm.Item()
	if (err != nil) != (dm.DecodeErr() != nil) {
		o = append(o, 0xBD)
	}
	if err != nil || it == nil {
		return append(o, 0xEE)
	}
	ib := it.ToBytes()
	*outs = append(*outs, ib)
	o = append(o, ib...)
	if b, e := it.ToBinary(); e == nil {
		*outs = append(*outs, b)
		o = append(o, b...)
	}
	if l, e := it.ToList(); e == nil {
		for i, k := range l {
			kb := k.ToBytes()
			*outs = append(*outs, kb)
			o = append(o, kb...)
			if b, e := k.ToBinary(); e == nil {
				*outs = append(*outs, b)
				o = append(o, b...)
			}
			l[i] = nil
		}
	}
	return o
}

func c12Scribble(outs [][]byte) {
	m := vsymU8()
	vsymAssume(m != 0)
	for _, b := range outs {
		b = b[:cap(b)]
		for i := range b {
			b[i] ^= m
		}
	}
}

func c12Same(a, b []byte) bool {
	if len(a) != len(b) {
		return false
	}
	for i := range a {
		if a[i] != b[i] {
			return false
		}
	}
	return true
}

// VerifC12_MsgConstructed: a data message built (directly, from a header, or through Derive) over
// an item made from a caller-owned slice, and its re-stamped copies: overwriting the caller's
// slice, the arrays passed in, and everything any accessor of the message or of ANY of its copies
// handed out leaves every observation of every one of them unchanged.
func VerifC12_MsgConstructed() {
	vsymExpect("compared")
	in := vsymBytes(vsymChoose(3))
	var item secs2.Item
	switch vsymChoose(3) {
	case 0:
		item = secs2.NewBinaryItem(in)
	case 1:
		item = secs2.NewListItem(secs2.NewBinaryItem(in), secs2.NewUintItem(1, in))
	default:
		item = nil
	}
	sys := sym4()
	sid := vsymU16()
	hdr := [10]byte{byte(sid >> 8), byte(sid), 0x81, 3, 0, 0, sys[0], sys[1], sys[2], sys[3]}
	var m *DataMessage
	var err error
	switch vsymChoose(3) {
	case 0:
		m, err = NewDataMessage(1, 3, true, sid, sys, item)
	case 1:
		m, err = NewDataMessageFromHeader(hdr, item)
	default:
		base, e := NewDataMessage(5, 1, true, 0, [4]byte{}, secs2.NewASCIIItem("base"))
		vsymAssert(e == nil, "base-builds")
		if item != nil {
			m, err = base.Derive().WithStream(1).WithFunction(3).WithSessionID(sid).WithSystemBytes(sys).WithItem(item).Build()
		} else {
			m, err = base.Derive().WithStream(1).WithFunction(3).WithSessionID(sid).WithSystemBytes(sys).Build()
		}
	}
	vsymAssert(err == nil && m != nil, "message-builds")
	if err != nil || m == nil {
		return
	}
	sys2 := sym4()
	m2 := m.WithSystemBytes(sys2)
	m3 := m2.WithSessionID(vsymU16())
	var o1, o2, o3 [][]byte
	a1, b1, c1 := c12Obs(m, &o1), c12Obs(m2, &o1), c12Obs(m3, &o1)
	// overwrite every caller-side input
	mk := vsymU8()
	vsymAssume(mk != 0)
	for i := range in {
		in[i] ^= mk
	}
	for i := range sys {
		sys[i] ^= mk
		sys2[i] ^= mk
	}
	for i := range hdr {
		hdr[i] ^= mk
	}
	a2, b2, c2 := c12Obs(m, &o2), c12Obs(m2, &o2), c12Obs(m3, &o2)
	vsymAssert(c12Same(a1, a2) && c12Same(b1, b2) && c12Same(c1, c2), "observations-unchanged-after-overwriting-constructor-inputs")
	c12Scribble(o1)
	c12Scribble(o2)
	a3, b3, c3 := c12Obs(m, &o3), c12Obs(m2, &o3), c12Obs(m3, &o3)
	vsymReach("compared")
	vsymAssert(c12Same(a1, a3) && c12Same(b1, b3) && c12Same(c1, c3), "observations-unchanged-after-overwriting-accessor-outputs")
	// the copies share one body and one decode state: same item object, encoded once
	i1, _ := m.Item()
	i2, _ := m2.Item()
	i3, _ := m3.Item()
	vsymAssert(i1 == i2 && i2 == i3, "restamped-copies-share-the-item")
	if m.BodyLen() > 0 {
		x, y := m.body.Buffers(), m3.body.Buffers()
		vsymAssert(len(x) == 1 && len(y) == 1 && len(x[0]) > 0 && &x[0][0] == &y[0][0], "body-encoded-once-and-shared")
	}
}

// c12Frame: a 10-byte header (data or control, symbolic) plus a body that is a well-formed binary
// item, a well-formed list, or arbitrary bytes.
func c12Frame() []byte {
	sys := sym4()
	stype := byte(0)
	if vsymBool() {
		stype = vsymU8()
	}
	f := []byte{vsymU8(), vsymU8(), vsymU8(), vsymU8(), 0, stype, sys[0], sys[1], sys[2], sys[3]}
	if stype == 0 {
		switch vsymChoose(4) {
		case 0:
			f = append(f, 0x21, 2, vsymU8(), vsymU8())
		case 1:
			f = append(f, 0x01, 2, 0x21, 1, vsymU8(), 0xA5, 1, vsymU8())
		case 2:
			f = append(f, vsymBytes(3)...)
		}
	}
	return f
}

// VerifC12_MsgDecoded: messages produced by the copying decode entry points from a caller buffer
// (overwritten afterwards) and by the owning one (ownership transferred: only outputs overwritten).
func VerifC12_MsgDecoded() {
	vsymExpect("compared")
	payload := c12Frame()
	entry := vsymChoose(3)
	var buf []byte
	var m Message
	var err error
	switch entry {
	case 0:
		n := len(payload)
		buf = append([]byte{0, 0, byte(n >> 8), byte(n)}, payload...)
		m, err = DecodeHSMSMessage(buf)
	case 1:
		buf = payload
		m, err = DecodeHSMSPayload(buf)
	default:
		buf = payload
		m, err = DecodeOwnedHSMSPayload(buf)
	}
	if err != nil {
		vsymAssert(m == nil, "no-message-with-error")
		return
	}
	var m2 Message = m
	if dm, ok := m.ToDataMessage(); ok {
		m2 = dm.WithSystemBytes(sym4())
	} else if cm, ok := m.(*ControlMessage); ok {
		m2 = cm.WithSystemBytes(sym4())
	}
	var o1, o2, o3 [][]byte
	a1, b1 := c12Obs(m, &o1), c12Obs(m2, &o1)
	if entry != 2 {
		mk := vsymU8()
		vsymAssume(mk != 0)
		for i := range buf {
			buf[i] ^= mk
		}
		a2, b2 := c12Obs(m, &o2), c12Obs(m2, &o2)
		vsymAssert(c12Same(a1, a2) && c12Same(b1, b2), "observations-unchanged-after-overwriting-the-decoded-buffer")
	}
	c12Scribble(o1)
	c12Scribble(o2)
	a3, b3 := c12Obs(m, &o3), c12Obs(m2, &o3)
	vsymReach("compared")
	vsymAssert(c12Same(a1, a3) && c12Same(b1, b3), "decoded-observations-unchanged-after-overwriting-accessor-outputs")
	if dm, ok := m.ToDataMessage(); ok {
		dm2, _ := m2.ToDataMessage()
		i1, e1 := dm.Item()
		i2, e2 := dm2.Item()
		vsymAssert(i1 == i2 && e1 == e2, "restamped-copy-shares-the-decoded-item")
	}
}

// VerifC12_LazyOnce: the FIRST observations of a message and of its re-stamped copies are made by
// three goroutines at once, with one preemption placed before any of the call instructions they
// execute (so that a second reader arrives while the first is inside the lazy decode / encode):
// all of them get the very same item object, the same error, identical bytes, and the body is
// encoded once.
func VerifC12_LazyOnce() {
	vsymExpect("joined")
	const K = 48
	decoded := vsymBool()
	var m *DataMessage
	if decoded {
		sys := sym4()
		body := []byte{0x01, 2, 0x21, 1, vsymU8(), 0xA5, 1, vsymU8()}
		if vsymBool() {
			body = vsymBytes(3) // possibly malformed: the decode error is memoized too
		}
		msg, err := DecodeHSMSPayload(dataFrame(vsymU16(), 0x81, 3, sys, body))
		vsymAssert(err == nil, "frame-decodes")
		if err != nil {
			return
		}
		m, _ = msg.ToDataMessage()
	} else {
		var err error
		m, err = NewDataMessage(1, 3, true, vsymU16(), sym4(), secs2.NewListItem(secs2.NewBinaryItem(vsymU8()), secs2.NewUintItem(2, vsymU16())))
		vsymAssert(err == nil, "message-builds")
		if err != nil {
			return
		}
	}
	m2 := m.WithSystemBytes(sym4())
	m3 := m2.WithSessionID(vsymU16())
	k := vsymChoose(K)
	var it [3]secs2.Item
	var er [3]error
	var wire [3][]byte
	var bufs [3][]byte
	done := make(chan int, 3)
	vsymPreemptAt(k)
	for i, x := range []*DataMessage{m, m2, m3} {
		go func() {
			if i != 1 {
				it[i], er[i] = x.Item()
				wire[i] = x.ToBytes()
			} else {
				wire[i] = x.ToBytes()
				it[i], er[i] = x.Item()
			}
			if b := x.body.Buffers(); len(b) == 1 {
				bufs[i] = b[0]
			}
			done <- i
		}()
	}
	for range 3 {
		<-done
	}
	vsymPreemptAt(-1)
	vsymReach("joined")
	vsymPreemptCovered(K)
	vsymAssert(it[0] == it[1] && it[1] == it[2], "concurrent-first-readers-share-one-item")
	vsymAssert(er[0] == er[1] && er[1] == er[2], "concurrent-first-readers-share-one-error")
	vsymAssert(len(wire[0]) == len(wire[1]) && len(wire[1]) == len(wire[2]), "concurrent-serializations-same-length")
	for j := 14; j < len(wire[0]) && j < len(wire[1]) && j < len(wire[2]); j++ {
		vsymAssert(wire[0][j] == wire[1][j] && wire[1][j] == wire[2][j], "concurrent-serializations-same-body")
	}
	if len(bufs[0]) > 0 {
		vsymAssert(len(bufs[1]) > 0 && len(bufs[2]) > 0 && &bufs[0][0] == &bufs[1][0] && &bufs[1][0] == &bufs[2][0], "body-encoded-once-under-concurrent-first-use")
	}
}
