//go:build verif

package hsms

import (
	"context"

	"github.com/arloliu/go-secs/v2/secs2"
)

// ---- C16 (hsms half): an item carrying a construction error never reaches the wire ----

// c16Errored returns an item with a deferred construction error: one of five ways of producing
// one, optionally buried at depth 1..2 of a list at either child position.
func c16Errored() secs2.Item {
	var bad secs2.Item
	switch vsymChoose(5) {
	case 0:
		bad = secs2.NewUintItem(int(vsymU8())|16, 1) // invalid byte size
	case 1:
		bad = secs2.NewIntItem(1, struct{}{}) // unsupported argument type
	case 2:
		v := vsymI64()
		vsymAssume(v < 0)
		bad = secs2.NewUintItem(4, v) // negative into unsigned
	case 3:
		bad = secs2.NewBinaryItem(256 + int(vsymU8())) // out of byte range
	default:
		bad = secs2.NewFloatItem(3, 1.0) // invalid float width
	}
	vsymAssert(bad.Error() != nil, "constructor-reported-the-error")
	for d := vsymChoose(3); d > 0; d-- {
		if vsymBool() {
			bad = secs2.L(secs2.U1(vsymU8()), bad)
		} else {
			bad = secs2.L(bad, secs2.A("x"))
		}
	}
	return bad
}

// VerifC16_SendGate: each of the four session calls that take an item, in every FSM state: the
// call returns a non-nil error and nothing is written, enqueued, registered or counted.
func VerifC16_SendGate() {
	vsymExpect("refused")
	bad := c16Errored()
	v := newVConnection(ConnState(vsymChoose(3)))
	stream := vsymU8() & 0x7F
	fn := vsymU8() | 1
	w := vsymBool()
	primary, _ := NewDataMessage(stream, fn, true, 7, sym4(), nil)
	before := v.snap()
	var err error
	var reply *DataMessage
	switch vsymChoose(4) {
	case 0:
		reply, err = v.c.SendDataMessage(context.Background(), stream, fn, w, bad)
	case 1:
		err = v.c.SendDataMessageAsync(context.Background(), stream, fn, w, bad)
	case 2:
		reply, err = v.c.SendSECS2Message(context.Background(), secs2.NewMessage(stream, fn, w, bad))
	default:
		err = v.c.ReplyDataMessage(context.Background(), primary, bad)
	}
	vsymReach("refused")
	vsymAssert(err != nil && reply == nil, "errored-item-refused-by-the-send-call")
	vsymAssert(len(v.tr.writes) == 0, "nothing-on-the-wire")
	vsymAssert(len(v.e.sendCh) == 0, "nothing-enqueued")
	vsymAssert(v.e.replies.len() == 0, "nothing-registered")
	vsymAssert(v.snap() == before, "no-counter-moved")
}

// VerifC16_MessageGate: the three message construction routes refuse every errored body.
func VerifC16_MessageGate() {
	vsymExpect("refused")
	bad := c16Errored()
	stream, function := vsymU8()&0x7F, vsymU8()|1
	m1, e1 := NewDataMessage(stream, function, vsymBool(), vsymU16(), sym4(), bad)
	vsymReach("refused")
	vsymAssert(e1 != nil && m1 == nil, "errored-body-refused")
	base, _ := NewDataMessage(stream, function, false, 0, [4]byte{}, nil)
	m2, e2 := base.Derive().WithItem(bad).Build()
	vsymAssert(e2 != nil && m2 == nil, "errored-body-refused-by-builder")
	var hdr [10]byte
	hdr[2], hdr[3] = stream, function
	m3, e3 := NewDataMessageFromHeader(hdr, bad)
	vsymAssert(e3 != nil && m3 == nil, "errored-body-refused-from-header")
}
