//go:build verif

package hsms

import (
	"context"
	"errors"
	"net"
	"time"

	"github.com/arloliu/go-secs/v2/secs2"
)

// ---- C20: per-operation metric accounting (the table documented on ConnectionMetrics) ----

const (
	c20Reply = iota
	c20Reject
	c20T3
	c20Disconnect
	c20Cancel
	c20RefusedB1
	c20RefusedB2
	c20WriteError
	c20FireAndForget
	c20ForwardW
	c20Control
	c20Outcomes
)

type c20Delta struct {
	send, errc, drop, async int
}

// VerifC20_SendOutcomesVT: one send ending in each possible outcome; every counter's delta must be
// the documented one and the in-flight gauge must return to its entry value and never go negative.
func VerifC20_SendOutcomesVT() {
	vsymExpect("checked")
	outcome := vsymChoose(c20Outcomes)
	state := SelectedState
	if outcome == c20RefusedB1 {
		state = ConnState(vsymChoose(2)) // NotConnected or NotSelected
	}
	v := newVConnection(state)
	ctx, cancel := context.WithCancel(context.Background())
	defer cancel()
	minInflight := int64(0)
	watch := func() {
		if n := v.c.Metrics().DataMsgInflightCount(); n < minInflight {
			minInflight = n
		}
	}
	v.tr.onWrite = func(w vwrite) {
		watch()
		if len(w.bytes) < 14 || w.bytes[9] != 0 {
			return
		}
		var sys [4]byte
		copy(sys[:], w.bytes[10:14])
		switch outcome {
		case c20Reply:
			_ = v.c.DeliverOwnedFrame(dataFrame(0xFFFF, 1, 2, sys, nil))
		case c20Reject:
			v.c.RouteReply(NewRejectReqRaw(0xFFFF, 0, 0, sys, vsymU8()))
		case c20Disconnect:
			v.e.cancel()
		case c20Cancel:
			cancel()
		}
		watch()
	}
	if outcome == c20RefusedB2 {
		v.c.testHookAfterWriteLock = func() { v.s.state.Store(uint32(NotSelectedState)) }
	}
	if outcome == c20WriteError {
		// a transport write failure of either class: a plain error, or the timeout-class *net.OpError
		// a real socket returns when the write deadline expires on a wedged peer
		if vsymBool() {
			v.tr.writeErr = errors.New("model: broken pipe")
		} else {
			v.tr.writeErr = &net.OpError{Op: "write", Net: "tcp", Err: c20Timeout{}}
		}
	}
	before := v.snap()
	var err error
	wantRecv := uint64(0)
	switch outcome {
	case c20FireAndForget:
		_, err = v.c.SendDataMessage(ctx, 1, 1, false, secs2.U1(1))
	case c20ForwardW:
		m, _ := NewDataMessage(1, 1, true, 0xFFFF, sym4(), nil)
		err = v.c.ForwardDataMessage(ctx, m)
	case c20Control:
		_, err = v.c.WriteMessage(ctx, NewLinktestReq(sym4()))
	default:
		_, err = v.c.SendDataMessage(ctx, 1, 1, true, secs2.U1(1))
	}
	watch()
	after := v.snap()
	if outcome == c20Reply {
		wantRecv = 1
	}
	var want c20Delta
	switch outcome {
	case c20Reply:
		want = c20Delta{send: 1}
		vsymAssert(err == nil, "reply-ok")
	case c20Reject:
		want = c20Delta{send: 1} // a peer reject changes no error/drop counter
		var re *RejectError
		vsymAssert(errors.As(err, &re), "reject-error")
	case c20T3:
		want = c20Delta{send: 1, errc: 1}
		vsymAssert(errors.Is(err, ErrT3Timeout), "t3-error")
	case c20Disconnect:
		want = c20Delta{send: 1}
		vsymAssert(errors.Is(err, ErrConnClosed), "closed-error")
	case c20Cancel:
		want = c20Delta{send: 1}
		vsymAssert(errors.Is(err, context.Canceled), "cancel-error")
	case c20RefusedB1, c20RefusedB2:
		want = c20Delta{drop: 1}
		vsymAssert(errors.Is(err, ErrNotSelectedState), "refused-error")
	case c20WriteError:
		want = c20Delta{errc: 1}
		vsymAssert(err != nil, "write-error-returned")
		vsymAssert(len(v.s.events) == 1, "write-failure-reports-link-down-once")
	case c20FireAndForget, c20ForwardW:
		want = c20Delta{send: 1}
		vsymAssert(err == nil, "no-reply-send-ok")
	case c20Control:
		want = c20Delta{}
		vsymAssert(errors.Is(err, ErrT6Timeout), "control-t6")
	}
	vsymReach("checked")
	vsymAssert(int(after.send-before.send) == want.send, "data-sent-counter-delta")
	vsymAssert(int(after.errc-before.errc) == want.errc, "data-error-counter-delta")
	vsymAssert(int(after.drop-before.drop) == want.drop, "not-selected-drop-counter-delta")
	vsymAssert(int(after.async-before.async) == want.async, "async-error-counter-delta")
	vsymAssert(after.recv-before.recv == wantRecv, "data-received-counter-delta")
	vsymAssert(after.inflight == before.inflight, "inflight-returns-to-entry-value")
	vsymAssert(minInflight >= 0, "inflight-never-negative")
	vsymAssert(after.reconnecting == 0 && after.reconnects == before.reconnects, "reconnect-counters-untouched")
}

// VerifC20_InflightDuringWait: while a W-bit data send is waiting the gauge is exactly 1; before
// the frame is on the wire it is 0 (incremented after, never before, the write).
func VerifC20_InflightDuringWaitVT() {
	vsymExpect("checked")
	v := newVConnection(SelectedState)
	atWrite := int64(-1)
	duringWait := int64(-1)
	v.tr.onWrite = func(w vwrite) {
		atWrite = v.c.Metrics().DataMsgInflightCount()
	}
	v.c.AddDataMessageHandler(func(m *DataMessage, _ SECS2Endpoint) {})
	ctx, cancel := context.WithCancel(context.Background())
	go func() {
		// runs once the sender blocks in its wait
		vsymQuiesce()
		duringWait = v.c.Metrics().DataMsgInflightCount()
		cancel()
	}()
	_, err := v.c.SendDataMessage(ctx, 1, 1, true, nil)
	vsymReach("checked")
	vsymAssert(errors.Is(err, context.Canceled), "cancelled")
	vsymAssert(atWrite == 0, "not-inflight-before-on-wire")
	vsymAssert(duringWait == 1, "inflight-is-one-while-waiting")
	vsymAssert(v.c.Metrics().DataMsgInflightCount() == 0, "inflight-zero-after")
}

// VerifC20_AsyncDrain: frames drained by the async sender: each written frame counts one send,
// each failed write one async error, never both.
func VerifC20_AsyncDrain() {
	vsymExpect("checked")
	v := newVConnection(SelectedState)
	n := 1 + vsymChoose(4) // 1..4 = the queue capacity the harness gives sendCh
	fail := vsymBool()
	if fail {
		v.tr.writeErr = errors.New("model: write failed")
	}
	for i := 0; i < n; i++ {
		m, _ := NewDataMessage(1, 1, false, 1, sym4(), nil)
		vsymAssert(v.c.SendAsync(context.Background(), m) == nil, "enqueue-ok")
	}
	before := v.snap()
	ctx, cancel := context.WithCancel(context.Background())
	written := 0
	v.tr.onWrite = func(w vwrite) {
		written++
		if written == n {
			cancel()
		}
	}
	if fail {
		// every write fails: stop the loop once the queue is empty
		go func() { cancel() }()
	}
	v.c.drainSendCh(ctx, v.e)
	after := v.snap()
	vsymReach("checked")
	if !fail {
		vsymAssert(after.send-before.send == uint64(n) && after.async == before.async, "each-drained-frame-counts-one-send")
		vsymAssert(len(v.tr.writes) == n, "each-queued-frame-written-once")
	} else {
		vsymAssert(after.send == before.send, "failed-writes-count-no-send")
		vsymAssert(after.async-before.async+uint64(len(v.e.sendCh)) == uint64(n), "each-failed-write-counts-one-async-error")
	}
}

// VerifC20_OverlappingReconnectLoopsVT: two reconnect loops alive at once (a re-dial that comes up
// and is dropped again before the first loop has returned): the reconnecting gauge stays positive
// as long as ANY loop runs and is zero when both are gone.
func VerifC20_OverlappingReconnectLoopsVT() {
	vsymExpect("checked")
	v := newVConnection(NotConnectedState)
	cfg := *v.c.cfg.Load()
	cfg.reconnectBackoffInitial = time.Second
	cfg.closeTimeout = time.Second
	v.c.cfg.Store(&cfg)
	v.c.cur.Store(nil)
	gen := v.c.reconnectGen.Load()
	done1, done2 := false, false
	go func() { v.c.connectLoop(nil, gen, nil, true); done1 = true }()
	vsymAdvance(int64(500 * time.Millisecond))
	vsymAssert(v.c.Metrics().Reconnecting() >= 1, "gauge-positive-while-first-loop-runs")
	go func() { v.c.connectLoop(nil, gen, nil, true); done2 = true }()
	vsymAdvance(int64(600 * time.Millisecond)) // t=1.1s: loop 1 has dialled and returned, loop 2 still sleeps
	vsymReach("checked")
	vsymAssert(done1 && !done2, "first-loop-finished-second-still-running")
	e1 := v.c.cur.Load()
	vsymAssert(v.c.Metrics().Reconnecting() >= 1, "gauge-positive-while-any-reconnect-loop-runs")
	vsymAdvance(int64(time.Second))
	vsymAssert(done2, "second-loop-finished")
	vsymAssert(v.c.Metrics().Reconnecting() == 0, "gauge-zero-when-no-loop-runs")
	vsymAssert(v.c.Metrics().Reconnects() == 2, "each-successful-redial-counted-once")
	for _, e := range []*epoch{e1, v.c.cur.Load()} {
		if e != nil {
			e.teardown(time.Second)
			_ = e.wait()
		}
	}
}

// VerifC20_TwoSendersVT: two reply-expected sends at once, each with its own scripted outcome
// {reply, peer reject, silence (T3), caller cancel}, and ONE preemption before each call
// instruction either sender executes. A monitor samples the in-flight gauge at every transport
// write: it is never negative and never above the number of sends whose frame is on the wire and
// whose call has not returned. At the end: gauge 0, sent counter +2, error counter + (number of
// T3 outcomes), nothing else moved, both registries empty.
func VerifC20_TwoSendersVT() {
	vsymExpect("done")
	K := 320
	v := newVConnection(SelectedState)
	var out [2]int
	out[0], out[1] = vsymChoose(4), vsymChoose(4) // 0 reply, 1 reject, 2 silence, 3 cancel
	k := vsymChoose(K)
	before := v.snap()
	var ctxs [2]context.Context
	var cancels [2]context.CancelFunc
	for i := range ctxs {
		ctxs[i], cancels[i] = context.WithCancel(context.Background())
	}
	written, returned := 0, 0
	gaugeOK := true
	v.tr.onWrite = func(w vwrite) {
		if len(w.bytes) < 14 || w.bytes[9] != 0 || w.bytes[6]&0x80 == 0 {
			return
		}
		g := v.c.Metrics().DataMsgInflightCount()
		if g < 0 || g > int64(written-returned) {
			gaugeOK = false
		}
		written++
		// the stream byte tells the two primaries apart
		i := int(w.bytes[6]&0x7F) - 1
		var sys [4]byte
		copy(sys[:], w.bytes[10:14])
		switch out[i] {
		case 0:
			_ = v.c.DeliverOwnedFrame(dataFrame(0xFFFF, w.bytes[6]&0x7F, 2, sys, nil))
		case 1:
			v.c.RouteReply(NewRejectReqRaw(0xFFFF, 0, 0, sys, 3))
		case 3:
			cancels[i]()
		}
	}
	var errs [2]error
	var replies [2]*DataMessage
	done := make(chan int, 2)
	vsymPreemptAt(k)
	for i := 0; i < 2; i++ {
		go func() {
			replies[i], errs[i] = v.c.SendDataMessage(ctxs[i], byte(i+1), 1, true, nil)
			returned++
			done <- i
		}()
	}
	<-done
	<-done
	vsymPreemptAt(-1)
	vsymPreemptCovered(K)
	after := v.snap()
	t3s := uint64(0)
	for i := 0; i < 2; i++ {
		switch out[i] {
		case 0:
			vsymAssert(errs[i] == nil && replies[i] != nil && replies[i].Stream() == byte(i+1), "each-sender-gets-its-own-reply")
		case 1:
			var re *RejectError
			vsymAssert(errors.As(errs[i], &re), "reject-outcome")
		case 2:
			vsymAssert(errors.Is(errs[i], ErrT3Timeout), "t3-outcome")
			t3s++
		default:
			vsymAssert(errors.Is(errs[i], context.Canceled), "cancel-outcome")
		}
	}
	vsymAssert(gaugeOK, "inflight-gauge-never-negative-never-above-the-open-sends")
	vsymAssert(after.inflight == 0, "inflight-gauge-zero-at-quiescence")
	vsymAssert(after.send == before.send+2, "two-frames-sent-two-counted")
	vsymAssert(after.errc == before.errc+t3s, "one-error-per-T3-outcome-only")
	vsymAssert(after.drop == before.drop && after.async == before.async && after.recv == before.recv+uint64(c20Count(out, 0)), "no-other-counter-moved")
	vsymAssert(v.e.replies.len() == 0, "registry-empty")
	vsymReach("done")
}

func c20Count(out [2]int, x int) int {
	n := 0
	for _, o := range out {
		if o == x {
			n++
		}
	}
	return n
}


// c20Timeout is a timeout-class error as a socket write past its deadline reports it.
type c20Timeout struct{}

func (c20Timeout) Error() string   { return "i/o timeout (model)" }
func (c20Timeout) Timeout() bool   { return true }
func (c20Timeout) Temporary() bool { return true }
