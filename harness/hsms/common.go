//go:build verif

package hsms

import (
	"context"
	"errors"
	"net"
	"time"

	"github.com/arloliu/go-secs/v2/logger"
	"github.com/arloliu/go-secs/v2/secs2"
)

// ---- harness-side environment of the connection core: a recording transport (the unexported
// hsms.transport seam), a silent logger and an identity-only net.Conn ----

type vlog struct{}

func (vlog) Debug(string, ...any)         {}
func (vlog) Info(string, ...any)          {}
func (vlog) Warn(string, ...any)          {}
func (vlog) Error(string, ...any)         {}
func (vlog) Fatal(string, ...any)         {}
func (l vlog) With(...any) logger.Logger  { return l }
func (vlog) Level() logger.LogLevel       { return logger.ErrorLevel }
func (vlog) SetLevel(logger.LogLevel)     {}

// vnc is a net.Conn that only has identity (the core never reads or writes it directly; it hands
// it back to the transport).
type vnc struct {
	id     int
	closed bool
}

func (c *vnc) Read([]byte) (int, error)         { return 0, errors.New("vnc: read") }
func (c *vnc) Write(p []byte) (int, error)      { return len(p), nil }
func (c *vnc) Close() error                     { c.closed = true; return nil }
func (c *vnc) LocalAddr() net.Addr              { return nil }
func (c *vnc) RemoteAddr() net.Addr             { return nil }
func (c *vnc) SetDeadline(time.Time) error      { return nil }
func (c *vnc) SetReadDeadline(time.Time) error  { return nil }
func (c *vnc) SetWriteDeadline(time.Time) error { return nil }

type vwrite struct {
	conn  net.Conn
	bytes []byte
}

// vtr is the model transport: it records what the core hands it.
type vtr struct {
	active    bool
	writes    []vwrite
	writeErr  error
	onWrite   func(w vwrite) // called inside Write (the frame is "on the wire" when it returns)
	starts    int
	stops     int
	arms      int
	startErr  func(n int) error
	onStart   func(rt TransportRuntime)
	deadlines []time.Time
	// failClosed: a write on a closed model socket fails like a real one (off by default: most
	// harnesses want to SEE a write that should not have happened)
	failClosed bool
	refused    int
}

func (t *vtr) Start(ctx context.Context, rt TransportRuntime) error {
	t.starts++
	if t.startErr != nil {
		if err := t.startErr(t.starts); err != nil {
			return err
		}
	}
	if t.onStart != nil {
		t.onStart(rt)
	}
	return nil
}
func (t *vtr) IsActive() bool                 { return t.active }
func (t *vtr) Stop(ctx context.Context) error { t.stops++; return nil }
func (t *vtr) ArmStart()                      { t.arms++ }
func (t *vtr) Write(ctx context.Context, conn net.Conn, bufs net.Buffers) error {
	if t.writeErr != nil {
		return t.writeErr
	}
	if nc, ok := conn.(*vnc); ok && nc.closed && t.failClosed {
		t.refused++
		return errors.New("model: use of closed network connection")
	}
	var b []byte
	for _, x := range bufs {
		b = append(b, x...)
	}
	w := vwrite{conn: conn, bytes: b}
	t.writes = append(t.writes, w)
	if t.onWrite != nil {
		t.onWrite(w)
	}
	return nil
}
func (t *vtr) SetReadDeadline(net.Conn, time.Time) error { return nil }
func (t *vtr) SetWriteDeadline(c net.Conn, d time.Time) error {
	t.deadlines = append(t.deadlines, d)
	return nil
}

// vconnection is a connection assembled directly in a chosen lifecycle state (no goroutines):
// a live epoch with a socket and a supervisor whose state word is set to `state`.
type vconnection struct {
	c    *connection
	tr   *vtr
	e    *epoch
	s    *supervisor
	conn *vnc
	got  []*DataMessage // messages delivered to handler 1
	got2 []*DataMessage // messages delivered to handler 2
	ord  []int          // handler invocation order
}

func newVConnection(state ConnState) *vconnection {
	cfg := DefaultConnectionConfig()
	cfg.logger = vlog{}
	tr := &vtr{active: true}
	ci, _ := NewConnection(cfg, tr)
	c := ci.(*connection)
	v := &vconnection{c: c, tr: tr}
	v.conn = &vnc{id: 1}
	v.e = newEpoch(context.Background(), vlog{}, 4)
	v.e.setConn(v.conn)
	c.cur.Store(v.e)
	v.s = newSupervisor(c.react, &c.handlers)
	v.s.state.Store(uint32(state))
	v.s.lastReacted = state
	c.sup.Store(v.s)
	c.AddDataMessageHandler(func(m *DataMessage, _ SECS2Endpoint) {
		v.got = append(v.got, m)
		v.ord = append(v.ord, 1)
	}, func(m *DataMessage, _ SECS2Endpoint) {
		v.got2 = append(v.got2, m)
		v.ord = append(v.ord, 2)
	})
	return v
}

// dataFrame builds an owned [header||body] data frame.
func dataFrame(sid uint16, b2, fn byte, sys [4]byte, body []byte) []byte {
	f := []byte{byte(sid >> 8), byte(sid), b2, fn, 0, 0, sys[0], sys[1], sys[2], sys[3]}
	return append(f, body...)
}

type metricSnap struct {
	send, recv, errc, drop, async uint64
	inflight, reconnecting        int64
	reconnects, decodeErr         uint64
}

func (v *vconnection) snap() metricSnap {
	m := v.c.Metrics()
	return metricSnap{send: m.DataMsgSendCount(), recv: m.DataMsgRecvCount(), errc: m.DataMsgErrCount(),
		drop: m.DataMsgDropNotSelectedCount(), async: m.AsyncSendErrCount(), inflight: m.DataMsgInflightCount(),
		reconnecting: m.Reconnecting(), reconnects: m.Reconnects(), decodeErr: m.DecodeErrCount()}
}

var _ = secs2.NewEmptyItem
