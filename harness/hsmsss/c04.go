//go:build verif

package hsmsss

import (
	"time"

	"github.com/arloliu/go-secs/v2/hsms"
)

// ---- C04 (b): stream framing — real recvLoop / readFrame / readN over a scripted net.Conn ----

const c04FrameCap = 16777215

// c04DataFrame builds [len:4][header:10][body] for a data frame with symbolic header/body bytes.
func c04DataFrame(bodyLen int) []byte {
	n := 10 + bodyLen
	f := []byte{byte(n >> 24), byte(n >> 16), byte(n >> 8), byte(n)}
	h := vsymBytes(10)
	h[4], h[5] = 0, 0 // PType 0, SType 0: a data frame, delivered while Selected
	f = append(f, h...)
	f = append(f, vsymBytes(bodyLen)...)
	return f
}

// VerifC04_RecvSegmentation: a stream of two data frames is cut at every pair (thorough: triple) of
// positions, each segment arriving after a scripted delay (0, exactly T8, or T8+1ns). Obligations:
// same frames in the same order whatever the cuts; before every read the deadline is cleared iff
// no byte of the current frame has been read, otherwise it is exactly now+T8; an idle gap between
// frames never times out; a gap > T8 inside a frame drops the link (TCPDown once, nothing more
// delivered).
func VerifC04_RecvSegmentation() {
	vsymExpect("all-delivered")
	vsymExpect("t8-drop")
	vsymExpect("idle-gap-survives")
	t8 := int64(5_000_000_000)
	if vsymBool() {
		t8 = 1
	}
	la := vsymChoose(3)
	fa := c04DataFrame(la)
	fb := c04DataFrame(0)
	stream := append(append([]byte(nil), fa...), fb...)
	n := len(stream)
	ncuts := 2
	if vsymTier() == 1 {
		ncuts = 3
	}
	cuts := make([]int, 0, ncuts)
	prev := 0
	for i := 0; i < ncuts; i++ {
		c := prev + vsymChoose(n+1-prev)
		cuts = append(cuts, c)
		prev = c
	}
	// distinct interior cut points define the segments
	var segStarts []int
	segStarts = append(segStarts, 0)
	for _, c := range cuts {
		if c > segStarts[len(segStarts)-1] && c < n {
			segStarts = append(segStarts, c)
		}
	}
	delays := make([]int64, len(segStarts))
	for i := range delays {
		switch vsymChoose(3) {
		case 0:
			delays[i] = 0
		case 1:
			delays[i] = t8
		default:
			delays[i] = t8 + 1
		}
	}
	clock := int64(1_000_000)
	conn := &vconn{stream: stream, cuts: cuts, delays: append([]int64(nil), delays...), clock: &clock}
	rt := &vrt{state: hsms.SelectedState, timers: hsms.TimerConfig{T8: time.Duration(t8)}}
	tr := newVT(rt, true)
	var lastNow int64
	tr.now = func() time.Time { lastNow = clock; return vsymMonoTime(clock) }
	tr.conn = conn
	g := tr.wg
	g.recv.Add(1)
	tr.recvLoop(g)

	// expected outcome from the script: a segment that starts strictly inside a frame and arrives
	// more than T8 after the previous byte times out; a segment that starts at a frame boundary may
	// be arbitrarily late.
	boundary := func(p int) bool { return p == 0 || p == len(fa) }
	expectDrop := false
	dropAt := n
	for i, s := range segStarts {
		if !boundary(s) && delays[i] > t8 {
			expectDrop = true
			dropAt = s
			break
		}
	}
	// deadline policy at every read
	for i := range conn.posAtRead {
		p := conn.posAtRead[i]
		if p >= n {
			continue
		}
		vsymAssert(conn.freshAtRead[i], "deadline-set-before-every-read")
		if boundary(p) {
			vsymAssert(conn.deadlineAtRead[i].IsZero(), "idle-wait-has-no-deadline")
		} else {
			vsymAssert(!conn.deadlineAtRead[i].IsZero(), "in-frame-read-has-deadline")
		}
	}
	wantFrames := 2
	if expectDrop {
		wantFrames = 0
		if dropAt > len(fa) {
			wantFrames = 1
		}
	}
	vsymAssert(len(rt.delivered) == wantFrames, "delivered-frame-count")
	if len(rt.delivered) >= 1 {
		f := rt.delivered[0]
		vsymAssert(len(f) == len(fa)-4, "frame-1-length")
		for i := 0; i < len(f) && i < len(fa)-4; i++ {
			vsymAssert(f[i] == fa[4+i], "frame-1-bytes")
		}
	}
	if len(rt.delivered) >= 2 {
		f := rt.delivered[1]
		vsymAssert(len(f) == len(fb)-4, "frame-2-length")
		for i := 0; i < len(f) && i < len(fb)-4; i++ {
			vsymAssert(f[i] == fb[4+i], "frame-2-bytes")
		}
	}
	// the loop always ends with exactly one TCPDown (T8 expiry or the end of the scripted stream)
	vsymAssert(len(rt.tcpDown) == 1, "exactly-one-TCPDown")
	vsymAssert(conn.timedOut == expectDrop, "timeout-iff-in-frame-gap-exceeds-T8")
	if expectDrop {
		vsymReach("t8-drop")
	} else {
		vsymReach("all-delivered")
		for i, s := range segStarts {
			if boundary(s) && delays[i] > t8 {
				vsymReach("idle-gap-survives")
			}
		}
	}
	_ = lastNow
}

// VerifC04_RecvDeadlineValue: the in-frame deadline is exactly now()+T8 with now read at that moment,
// for a symbolic T8 and symbolic clock readings.
func VerifC04_RecvDeadlineValue() {
	vsymExpect("checked")
	t8 := vsymI64()
	vsymAssume(t8 > 0 && t8 < 1<<40)
	c0, c1 := vsymI64(), vsymI64()
	vsymAssume(c0 >= 0 && c0 < 1<<50 && c1 >= c0 && c1 < 1<<50)
	f := c04DataFrame(1)
	clock := c0
	conn := &vconn{stream: f, cuts: []int{2, 9}, clock: &clock}
	rt := &vrt{state: hsms.SelectedState, timers: hsms.TimerConfig{T8: time.Duration(t8)}}
	tr := newVT(rt, true)
	calls := 0
	tr.now = func() time.Time {
		calls++
		if calls >= 2 {
			clock = c1
		}
		return vsymMonoTime(clock)
	}
	frame, err := tr.readFrame(conn)
	vsymReach("checked")
	vsymAssert(err == nil && len(frame) == 11, "frame-read")
	// reads: [0,2) idle, [2,4) in-frame (now=c0), [4,9) in-frame (now=c1), [9,15) in-frame
	vsymAssert(len(conn.deadlineAtRead) == 4, "four-reads")
	if len(conn.deadlineAtRead) == 4 {
		vsymAssert(conn.deadlineAtRead[0].IsZero(), "first-read-idle")
		d1 := conn.deadlineAtRead[1].Sub(vsymMonoTime(0))
		d2 := conn.deadlineAtRead[2].Sub(vsymMonoTime(0))
		vsymAssert(int64(d1) == c0+t8, "deadline-is-now-plus-T8")
		vsymAssert(int64(d2) == c1+t8, "deadline-uses-fresh-now")
	}
}

// VerifC04_RecvLengthField: every 32-bit length field. Out-of-range lengths return an error before the
// frame allocator is called, and recvLoop then reports TCPDown exactly once; in-range lengths
// allocate exactly the claimed size.
func VerifC04_RecvLengthField() {
	vsymExpect("too-small")
	vsymExpect("too-large")
	vsymExpect("in-range")
	lf := vsymU32()
	stream := []byte{byte(lf >> 24), byte(lf >> 16), byte(lf >> 8), byte(lf)}
	stream = append(stream, make([]byte, 64)...)
	clock := int64(0)
	cut := 1 + vsymChoose(3) // the length prefix itself may be split
	conn := &vconn{stream: stream, cuts: []int{cut}, clock: &clock}
	rt := &vrt{state: hsms.NotSelectedState, timers: hsms.TimerConfig{T8: time.Second}}
	tr := newVT(rt, false)
	var allocs []int
	tr.allocFrame = func(n int) []byte {
		allocs = append(allocs, n)
		if n > 60 {
			n = 60 // the model conn only has 64 bytes; the recorded size is what matters
		}
		return make([]byte, n)
	}
	tr.conn = conn
	frame, err := tr.readFrame(conn)
	switch {
	case lf < 10:
		vsymReach("too-small")
		vsymAssert(err != nil && frame == nil, "short-length-rejected")
		vsymAssert(len(allocs) == 0, "rejected-before-allocation")
	case lf > c04FrameCap:
		vsymReach("too-large")
		vsymAssert(err != nil && frame == nil, "oversized-length-rejected")
		vsymAssert(len(allocs) == 0, "rejected-before-allocation")
	default:
		vsymReach("in-range")
		vsymAssert(len(allocs) == 1 && allocs[0] == int(lf), "allocates-exactly-the-claimed-length")
	}
	if lf < 10 || lf > c04FrameCap {
		// through the loop: exactly one TCPDown, nothing delivered or answered
		conn2 := &vconn{stream: stream, cuts: []int{cut}, clock: &clock}
		tr.conn = conn2
		g := tr.wg
		g.recv.Add(1)
		tr.recvLoop(g)
		vsymAssert(len(rt.tcpDown) == 1 && len(rt.delivered) == 0 && len(rt.sent) == 0, "bad-length-drops-link-once")
		vsymAssert(len(allocs) == 0, "loop-rejected-before-allocation")
	}
}
