//go:build verif

package hsmsss

import (
	"github.com/arloliu/go-secs/v2/hsms"
)

// ---- C07 (inbound half): data while not selected is rejected with reason 4 and the link stays
// up; data pipelined right behind the Select.req / Select.rsp that establishes the session is
// delivered. Real dispatchFrame + responders over the model runtime.

func c07DataFrame() []byte {
	h := vsymBytes(10)
	h[4], h[5] = 0, 0
	return append(h, vsymBytes(vsymChoose(3))...)
}

// VerifC07_InboundNotSelected: any data frame (symbolic header incl. session id, W, stream,
// function, system bytes; body 0..2 bytes) received while NotSelected.
func VerifC07_InboundNotSelected() {
	vsymExpect("rejected")
	// NotSelected, or NotConnected with the receive loop still reading (Close / a drop in progress)
	before := []hsms.ConnState{hsms.NotSelectedState, hsms.NotConnectedState}[vsymChoose(2)]
	rt := &vrt{state: before}
	tr := newVT(rt, vsymBool())
	f := c07DataFrame()
	keep := tr.dispatchFrame(tr.wg, f)
	vsymReach("rejected")
	vsymAssert(keep, "link-stays-up")
	vsymAssert(len(rt.tcpDown) == 0, "no-disconnect")
	vsymAssert(len(rt.delivered) == 0, "not-delivered-to-handlers")
	vsymAssert(len(rt.sent) == 1, "exactly-one-reject")
	if len(rt.sent) == 1 {
		h := rt.sent[0].msg.HeaderBytes()
		want := [10]byte{f[0], f[1], 0, 4, 0, 7, f[6], f[7], f[8], f[9]}
		vsymAssert(h == want, "reject-reason-4-echoes-session-and-system-bytes")
	}
	vsymAssert(rt.state == before, "state-unchanged")
}

// VerifC07_PipelinedAfterSelect: passive role: [Select.req, data...]; active role:
// [Select.rsp(status 0) for our open Select, data...]. The data frames are delivered, not rejected.
func VerifC07_PipelinedAfterSelect() {
	vsymExpect("passive")
	vsymExpect("active")
	rt := &vrt{state: hsms.NotSelectedState}
	active := vsymBool()
	tr := newVT(rt, active)
	sid := vsymU16()
	sys := [4]byte{vsymU8(), vsymU8(), vsymU8(), vsymU8()}
	var first []byte
	if active {
		vsymReach("active")
		rt.pending = append(rt.pending, sys)
		first = []byte{byte(sid >> 8), byte(sid), 0, 0, 0, 2, sys[0], sys[1], sys[2], sys[3]}
	} else {
		vsymReach("passive")
		first = []byte{byte(sid >> 8), byte(sid), 0, 0, 0, 1, sys[0], sys[1], sys[2], sys[3]}
	}
	vsymAssert(tr.dispatchFrame(tr.wg, first), "select-keeps-link")
	nsent := len(rt.sent)
	if !active {
		vsymAssert(nsent == 1, "select-rsp-sent")
		if nsent == 1 {
			h := rt.sent[0].msg.HeaderBytes()
			vsymAssert(h == [10]byte{byte(sid >> 8), byte(sid), 0, 0, 0, 2, sys[0], sys[1], sys[2], sys[3]}, "select-rsp-status-0")
		}
	} else {
		vsymAssert(nsent == 0, "routed-select-rsp-not-answered")
	}
	n := 1 + vsymChoose(2)
	for i := 0; i < n; i++ {
		f := c07DataFrame()
		vsymAssert(tr.dispatchFrame(tr.wg, f), "data-keeps-link")
		vsymAssert(len(rt.delivered) == i+1, "pipelined-data-delivered")
		if len(rt.delivered) == i+1 {
			d := rt.delivered[i]
			vsymAssert(len(d) == len(f), "delivered-frame-length")
			for k := 0; k < len(d) && k < len(f); k++ {
				vsymAssert(d[k] == f[k], "delivered-frame-bytes")
			}
		}
	}
	vsymAssert(len(rt.sent) == nsent, "pipelined-data-never-rejected")
	vsymAssert(len(rt.tcpDown) == 0, "no-disconnect")
}

// VerifC07_SelectRspFailureDoesNotSelect: a routed Select.rsp with a non-zero status (or an
// unsolicited one) must not open the data gate.
func VerifC07_SelectRspFailureDoesNotSelect() {
	vsymExpect("checked")
	rt := &vrt{state: hsms.NotSelectedState}
	tr := newVT(rt, true)
	sys := [4]byte{vsymU8(), vsymU8(), vsymU8(), vsymU8()}
	status := vsymU8()
	solicited := vsymBool()
	if solicited {
		rt.pending = append(rt.pending, sys)
	}
	rsp := []byte{0, 0, 0, status, 0, 2, sys[0], sys[1], sys[2], sys[3]}
	tr.dispatchFrame(tr.wg, rsp)
	f := c07DataFrame()
	tr.dispatchFrame(tr.wg, f)
	vsymReach("checked")
	if solicited && status == 0 {
		vsymAssert(len(rt.delivered) == 1, "accepted-select-opens-gate")
	} else {
		vsymAssert(len(rt.delivered) == 0, "failed-or-unsolicited-select-keeps-gate-closed")
		vsymAssert(rt.state == hsms.NotSelectedState, "state-not-selected")
	}
}
