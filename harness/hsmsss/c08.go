//go:build verif

package hsmsss

import (
	"errors"
	"io"
	"net"
	"time"

	"github.com/arloliu/go-secs/v2/hsms"
)

// ---- C08: HSMS-SS control procedures against an independent E37 / E37.1 responder reference ----

// refResp is the reference responder state: selected?, and the system bytes of the (at most one)
// control transaction this side has open.
type refResp struct {
	sel     bool
	pending bool
	key     [4]byte
}

type refOut struct {
	send      bool
	hdr       [10]byte // header of the frame to send back
	deliver   bool     // data frame handed to the core
	down      bool     // link ended (Separate while selected)
	keepGoing bool
}

func refDefined(s byte) bool { return s == 0 || (s >= 1 && s <= 7) || s == 9 }

// refStep is the E37 responder: one inbound frame (10 header bytes h, bodyLen extra bytes).
func (r *refResp) refStep(h []byte, bodyLen int) refOut {
	out := refOut{keepGoing: true}
	sys := [4]byte{h[6], h[7], h[8], h[9]}
	reject := func(b2, reason byte) {
		out.send = true
		out.hdr = [10]byte{h[0], h[1], b2, reason, 0, 7, sys[0], sys[1], sys[2], sys[3]}
	}
	ptype, stype := h[4], h[5]
	switch {
	case ptype != 0:
		reject(ptype, 2)
	case !refDefined(stype):
		reject(stype, 1)
	case stype != 0 && bodyLen > 0:
		reject(stype, 1)
	case stype == 0:
		if r.sel {
			out.deliver = true
		} else {
			reject(0, 4)
		}
	case stype == 1:
		status := byte(1)
		if !r.sel {
			r.sel = true
			status = 0
		}
		out.send = true
		out.hdr = [10]byte{h[0], h[1], 0, status, 0, 2, sys[0], sys[1], sys[2], sys[3]}
	case stype == 3:
		status := byte(1)
		if r.sel {
			r.sel = false
			status = 0
		}
		out.send = true
		out.hdr = [10]byte{h[0], h[1], 0, status, 0, 4, sys[0], sys[1], sys[2], sys[3]}
	case stype == 5:
		out.send = true
		out.hdr = [10]byte{0xFF, 0xFF, 0, 0, 0, 6, sys[0], sys[1], sys[2], sys[3]}
	case stype == 2 || stype == 4 || stype == 6:
		if r.pending && r.key == sys {
			r.pending = false
			if stype == 2 && h[3] == 0 && !r.sel {
				r.sel = true
			}
		} else {
			reject(stype, 3)
		}
	case stype == 7:
		if r.pending && r.key == sys {
			r.pending = false
		}
	case stype == 9:
		if r.sel {
			out.down = true
			out.keepGoing = false
		}
	}
	return out
}

// c08Run drives the real dispatchFrame over a frame sequence and compares with the reference.
func c08Run(nframes int, active bool) {
	rt := &vrt{state: hsms.NotSelectedState}
	ref := &refResp{}
	if vsymBool() {
		rt.state = hsms.SelectedState
		ref.sel = true
	}
	if vsymBool() {
		k := [4]byte{vsymU8(), vsymU8(), vsymU8(), vsymU8()}
		rt.pending = append(rt.pending, k)
		ref.pending, ref.key = true, k
	}
	tr := newVT(rt, active)
	g := tr.wg
	for i := 0; i < nframes; i++ {
		h := vsymBytes(10)
		bodyLen := vsymChoose(2)
		frame := append(append([]byte(nil), h...), vsymBytes(bodyLen)...)
		nsent, ndel, ndown := len(rt.sent), len(rt.delivered), len(rt.tcpDown)
		keep := tr.dispatchFrame(g, frame)
		want := ref.refStep(h, bodyLen)
		vsymAssert(keep == want.keepGoing, "keeps-reading-unless-separated")
		// frames sent back
		if want.send {
			vsymAssert(len(rt.sent) == nsent+1, "exactly-one-frame-sent-back")
			if len(rt.sent) == nsent+1 {
				got := rt.sent[nsent].msg.HeaderBytes()
				vsymAssert(got == want.hdr, "response-header-per-E37")
				b := rt.sent[nsent].msg.ToBytes()
				vsymAssert(len(b) == 14 && b[3] == 10, "response-is-header-only-control-frame")
			}
		} else {
			vsymAssert(len(rt.sent) == nsent, "nothing-sent-back")
		}
		// delivery
		if want.deliver {
			vsymAssert(len(rt.delivered) == ndel+1, "data-delivered-once")
		} else {
			vsymAssert(len(rt.delivered) == ndel, "not-delivered")
		}
		// link
		if want.down {
			vsymReach("separate-ends-link")
			vsymAssert(len(rt.tcpDown) == ndown+1, "separate-while-selected-ends-connection")
		} else {
			vsymAssert(len(rt.tcpDown) == ndown, "never-a-disconnect")
		}
		// state agreement (this is what makes the one-step check inductive)
		vsymAssert((rt.state == hsms.SelectedState) == ref.sel, "selected-state-per-E37")
		vsymAssert(rt.state != hsms.NotConnectedState, "state-stays-connected")
		vsymAssert((len(rt.pending) == 1) == ref.pending, "open-transaction-set-per-E37")
		if want.send && want.hdr[5] == 7 {
			vsymReach("reject-sent")
		}
		if !keep {
			break
		}
	}
	vsymReach("ran")
}

// VerifC08_Step: ONE arbitrary frame from an ARBITRARY responder state (selected?, open transaction
// with arbitrary system bytes) — the responder state is finite, the real state is asserted equal to
// the reference state afterwards, so this single step extends to frame sequences of any length.
func VerifC08_Step() {
	vsymExpect("ran")
	vsymExpect("reject-sent")
	vsymExpect("separate-ends-link")
	c08Run(1, vsymBool())
}

// VerifC08_Sequences: sequences of 3 arbitrary frames (both tiers) run through the same
// comparison (a redundant, non-inductive confirmation that composing steps behaves).
func VerifC08_Sequences() {
	vsymExpect("ran")
	n := 3 // both tiers; 4 did not finish in 9 min (thorough) and is not registered
	c08Run(n, true)
}

// ---- C08: a second TCP connection to a passive endpoint is refused, the live one undisturbed ----

type c08Listener struct {
	conns []net.Conn
	next  int
}

func (l *c08Listener) Accept() (net.Conn, error) {
	if l.next >= len(l.conns) {
		return nil, errors.New("model: listener closed")
	}
	c := l.conns[l.next]
	l.next++
	return c, nil
}
func (l *c08Listener) Close() error   { return nil }
func (l *c08Listener) Addr() net.Addr { return nil }

// c08Parked is a socket whose Read parks until released (a live, idle peer), then reports EOF.
type c08Parked struct {
	vconn
	release chan struct{}
}

func (c *c08Parked) Read(p []byte) (int, error) {
	<-c.release
	return 0, io.EOF
}

// VerifC08_SecondConnectionRefused: the real accept loop with a listener that hands out the first
// peer and then 1..3 further dialers before it is closed: exactly one TCPUp (the first socket), each
// later socket is closed at once, the first one is neither closed nor replaced, and nothing is
// reported down while the late dialers come and go.
func VerifC08_SecondConnectionRefused() {
	vsymExpect("refused")
	rt := &vrt{state: hsms.NotConnectedState, timers: hsms.TimerConfig{T8: time.Second}}
	tr := newVT(rt, false)
	first := &c08Parked{release: make(chan struct{})}
	clock := int64(0)
	first.clock = &clock
	extras := 1 + vsymChoose(3)
	ln := &c08Listener{conns: []net.Conn{first}}
	var late []*vconn
	for i := 0; i < extras; i++ {
		c := &vconn{clock: &clock}
		late = append(late, c)
		ln.conns = append(ln.conns, c)
	}
	tr.wg.accept.Add(1)
	tr.acceptLoop(tr.wg, ln)
	vsymReach("refused")
	vsymAssert(rt.tcpUp == 1, "exactly-one-connection-adopted")
	vsymAssert(tr.conn == net.Conn(first), "the-first-connection-stays-the-session")
	vsymAssert(!first.closed, "live-connection-not-closed-by-a-late-dialer")
	for _, c := range late {
		vsymAssert(c.closed && c.reads == 0 && len(c.wrote) == 0, "late-dialer-closed-at-once-nothing-read-or-written")
	}
	vsymAssert(len(rt.tcpDown) == 0 && rt.selLost == 0, "live-link-undisturbed")
	vsymAssert(rt.state == hsms.NotSelectedState, "still-connected-not-selected")
	// release the parked peer so that the receive loop ends (exactly one drop report)
	close(first.release)
	tr.wg.recv.Wait()
	vsymAssert(len(rt.tcpDown) == 1, "peer-close-then-reports-one-TCPDown")
}
