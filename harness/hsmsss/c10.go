//go:build verif

package hsmsss

import (
	"context"
	"errors"
	"io"
	"net"
	"time"

	"github.com/arloliu/go-secs/v2/hsms"
)

// ---- C10 (HSMS-SS transport half): Stop leaves no goroutine and no socket behind, also when a
// peer is accepted while the listener is being closed ----

// c10Listener hands out its peer when released, even if Close was called in between (a connection
// the kernel had already accepted); after that, Accept reports the listener closed.
type c10Listener struct {
	peer    net.Conn
	release chan struct{}
	closed  bool
	served  bool
}

func (l *c10Listener) Accept() (net.Conn, error) {
	if !l.served {
		<-l.release
		l.served = true
		if l.peer != nil {
			return l.peer, nil
		}
	}
	return nil, errors.New("model: listener closed")
}
func (l *c10Listener) Close() error   { l.closed = true; return nil }
func (l *c10Listener) Addr() net.Addr { return nil }

// c10Peer is an idle socket: Read parks until the socket is closed, then reports an error.
type c10Peer struct {
	vconn
	gone chan struct{}
}

func (c *c10Peer) Read(p []byte) (int, error) {
	<-c.gone
	return 0, io.EOF
}

func (c *c10Peer) Close() error {
	if !c.closed {
		c.closed = true
		close(c.gone)
	}
	return nil
}

// VerifC10_StopJoinsLateAcceptVT: passive transport, accept loop parked in Accept. Stop is called;
// the peer is handed out by Accept before Stop / after Stop closed the listener (the late accept) /
// never. Stop returns nil within the close timeout, every goroutine of the generation has ended,
// and the peer's socket - adopted or not - is closed.
func VerifC10_StopJoinsLateAcceptVT() {
	vsymExpect("stopped")
	rt := &vrt{state: hsms.NotConnectedState, timers: hsms.TimerConfig{T8: time.Second}}
	tr := newVT(rt, false)
	peer := &c10Peer{gone: make(chan struct{})}
	clock := int64(0)
	peer.clock = &clock
	when := vsymChoose(3) // 0 accepted before Stop, 1 accepted after Stop closed the listener, 2 no peer
	ln := &c10Listener{release: make(chan struct{})}
	if when != 2 {
		ln.peer = peer
	}
	tr.listener = ln
	tr.wg.accept.Add(1)
	go tr.acceptLoop(tr.wg, ln)
	if when == 0 {
		close(ln.release)
		vsymQuiesce()
		vsymAssert(rt.tcpUp == 1, "peer-adopted-before-stop")
	} else {
		// the listener's Close releases the parked Accept
		go func() {
			for !ln.closed {
				time.Sleep(time.Millisecond)
			}
			close(ln.release)
		}()
	}
	ctx, cancel := context.WithTimeout(context.Background(), 3*time.Second)
	defer cancel()
	t0 := vsymNowNS()
	err := tr.Stop(ctx)
	el := vsymNowNS() - t0
	vsymReach("stopped")
	vsymAssert(err == nil, "stop-joins-cleanly")
	vsymAssert(el < int64(3*time.Second), "stop-does-not-wait-out-the-close-timeout")
	vsymQuiesce()
	vsymAssert(vsymLiveGoroutines() == 0, "no-transport-goroutine-left")
	if when != 2 {
		vsymAssert(peer.closed, "accepted-socket-closed-by-stop")
	}
	vsymAssert(ln.closed, "listener-closed")
}
