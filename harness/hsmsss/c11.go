//go:build verif

package hsmsss

import (
	"time"

	"github.com/arloliu/go-secs/v2/hsms"
)

// ---- C11 (transport half): every protocol timer that covers a stall funnels into exactly one
// link-down report, after which the core's reconnect loop takes over (hsms harness) ----

// VerifC11_T7VT: the NOT-SELECTED dwell. Armed on entering NotSelected, it reports T7Expired exactly
// once after exactly T7 unless selection (cancelT7) or teardown (Stop) comes first.
func VerifC11_T7VT() {
	vsymExpect("expired")
	vsymExpect("cancelled")
	t7 := int64(10 * time.Second)
	rt := &vrt{state: hsms.NotSelectedState, timers: hsms.TimerConfig{T7: time.Duration(t7)}}
	tr := newVT(rt, true)
	g := tr.wg
	tr.armT7(g)
	switch vsymChoose(3) {
	case 0:
		vsymReach("expired")
		vsymAdvance(t7 - 1)
		vsymAssert(rt.t7Expired == 0, "t7-not-before-T7")
		vsymAdvance(1)
		vsymAssert(rt.t7Expired == 1, "t7-reported-exactly-once-at-T7")
		vsymAdvance(t7 * 3)
		vsymAssert(rt.t7Expired == 1, "t7-one-shot")
	case 1:
		vsymReach("cancelled")
		vsymAdvance(t7 / 2)
		tr.cancelT7()
		vsymAdvance(t7 * 2)
		vsymAssert(rt.t7Expired == 0, "selection-cancels-t7")
	default:
		vsymAdvance(t7 / 2)
		tr.armT7(g) // re-entering NotSelected re-arms: the old dwell is cancelled, a full T7 restarts
		vsymAdvance(t7 - 1)
		vsymAssert(rt.t7Expired == 0, "rearm-restarts-the-dwell")
		vsymAdvance(1)
		vsymAssert(rt.t7Expired == 1, "rearmed-t7-reported-once")
	}
	tr.cancelT7()
	g.t7.Wait()
}

// VerifC11_ReadErrorFunnel: any read error on a live generation is reported as exactly one TCPDown;
// on a generation whose context is already cancelled (teardown owns the disconnect) as none.
func VerifC11_ReadErrorFunnel() {
	vsymExpect("live")
	vsymExpect("stale")
	rt := &vrt{state: hsms.SelectedState, timers: hsms.TimerConfig{T8: time.Second}}
	tr := newVT(rt, true)
	clock := int64(0)
	n := vsymChoose(14) // the peer closes after n bytes of a frame (0..13)
	stream := append([]byte{0, 0, 0, 10}, vsymBytes(10)...)[:n]
	conn := &vconn{stream: stream, clock: &clock}
	tr.conn = conn
	stale := vsymBool()
	if stale {
		ctx, cancel := contextWithCancel()
		cancel()
		tr.genCtx = ctx
	}
	tr.wg.recv.Add(1)
	tr.recvLoop(tr.wg)
	if stale {
		vsymReach("stale")
		vsymAssert(len(rt.tcpDown) == 0, "torn-down-generation-reports-nothing")
	} else {
		vsymReach("live")
		vsymAssert(len(rt.tcpDown) == 1, "peer-close-at-any-byte-reports-exactly-one-TCPDown")
	}
	vsymAssert(len(rt.delivered) == 0 && len(rt.sent) == 0, "partial-frame-never-delivered")
}

// VerifC11_T8StallFunnel: the peer stalls (socket left open) after exactly k bytes of a frame, for
// every k in 1..13 of a 14-byte frame; T8 covers the stall: exactly one TCPDown, however the bytes
// before the stall were segmented (in one read or two).
func VerifC11_T8StallFunnel() {
	vsymExpect("dropped")
	const t8 = int64(5 * time.Second)
	frame := append([]byte{0, 0, 0, 10}, vsymBytes(10)...)
	frame[8], frame[9] = 0, 0
	k := 1 + vsymChoose(13)
	clock := int64(0)
	cuts := []int{k}
	delays := []int64{0, t8 + 1}
	if k > 1 && vsymBool() {
		j := 1 + vsymChoose(k-1)
		cuts = []int{j, k}
		delays = []int64{0, 0, t8 + 1}
	}
	conn := &vconn{stream: frame, cuts: cuts, delays: delays, clock: &clock}
	rt := &vrt{state: hsms.SelectedState, timers: hsms.TimerConfig{T8: time.Duration(t8)}}
	tr := newVT(rt, true)
	tr.now = func() time.Time { return vsymMonoTime(clock) }
	tr.conn = conn
	tr.wg.recv.Add(1)
	tr.recvLoop(tr.wg)
	vsymReach("dropped")
	vsymAssert(conn.timedOut, "stall-inside-a-frame-is-bounded-by-T8")
	vsymAssert(len(rt.tcpDown) == 1, "t8-stall-reports-exactly-one-TCPDown")
	vsymAssert(len(rt.delivered) == 0, "partial-frame-not-delivered")
}

// VerifC11_SelectFailureFunnel: the active Select procedure against every way the transaction can
// end: Select.rsp with an arbitrary status byte, a response of another kind, no response (T6 / any
// transport error), with the generation alive or already torn down. A failed Select on a live
// generation reports exactly one TCPDown (so the core reconnects); status 0 and status 1
// ("already active") report none; a torn-down generation reports none (teardown owns the drop).
func VerifC11_SelectFailureFunnel() {
	vsymExpect("ok")
	vsymExpect("failed")
	vsymExpect("stale")
	rt := &vrt{state: hsms.NotSelectedState, timers: hsms.TimerConfig{T6: 5 * time.Second}, sessionID: vsymU16()}
	tr := newVT(rt, true)
	outcome := vsymChoose(4) // 0 Select.rsp(status), 1 another message kind, 2 error, 3 nil response without error
	status := vsymU8()
	stale := vsymBool()
	ctx, cancel := contextWithCancel()
	defer cancel()
	rt.writeResult = func(msg hsms.Message) (hsms.Message, error) {
		if stale {
			cancel() // the generation ends while the Select transaction is pending
		}
		switch outcome {
		case 0:
			req, _ := msg.(*hsms.ControlMessage)
			rsp, err := hsms.NewSelectRsp(req, status)
			vsymAssert(err == nil, "select-rsp-built")
			return rsp, nil
		case 1:
			return hsms.NewLinktestReq(msg.SystemBytes()), nil
		case 2:
			return nil, hsms.ErrT6Timeout
		default:
			return nil, nil
		}
	}
	tr.runSelectProcedure(ctx)
	vsymAssert(len(rt.sent) == 1 && rt.sent[0].msg.Type() == hsms.SelectReqType, "exactly-one-select-req-sent")
	if len(rt.sent) == 1 {
		vsymAssert(rt.sent[0].msg.SessionID() == rt.sessionID, "select-req-carries-the-configured-session-id")
	}
	switch {
	case outcome == 2 && stale:
		vsymReach("stale")
		vsymAssert(len(rt.tcpDown) == 0, "torn-down-generation-reports-nothing")
	case outcome == 0 && (status == 0 || status == 1):
		vsymReach("ok")
		vsymAssert(len(rt.tcpDown) == 0, "accepted-select-keeps-the-link")
	default:
		vsymReach("failed")
		vsymAssert(len(rt.tcpDown) == 1, "failed-select-reports-exactly-one-TCPDown")
	}
}

// VerifC11_T7VsSelectRspVT: the NOT-SELECTED dwell timer against the Select.rsp that ends the
// active Select transaction, through the real dispatchFrame: only a response that actually selects
// the session (status 0, committed) stops T7; after any other routed Select.rsp (status 1..255)
// the timer still expires at T7 and is reported once, so a link that never gets selected is
// recovered.
func VerifC11_T7VsSelectRspVT() {
	vsymExpect("selected")
	vsymExpect("not-selected")
	t7 := int64(10 * time.Second)
	rt := &vrt{state: hsms.NotSelectedState, timers: hsms.TimerConfig{T7: time.Duration(t7)}}
	tr := newVT(rt, true)
	g := tr.wg
	tr.armT7(g)
	vsymAdvance(t7 / 4)
	sys := [4]byte{vsymU8(), vsymU8(), vsymU8(), vsymU8()}
	status := vsymU8()
	rt.pending = append(rt.pending, sys)
	sid := vsymU16()
	keep := tr.dispatchFrame(g, []byte{byte(sid >> 8), byte(sid), 0, status, 0, 2, sys[0], sys[1], sys[2], sys[3]})
	vsymAssert(keep, "select-rsp-keeps-the-link")
	vsymAdvance(t7 * 2)
	if status == 0 {
		vsymReach("selected")
		vsymAssert(rt.state == hsms.SelectedState, "status-0-selects")
		vsymAssert(rt.t7Expired == 0, "selection-cancels-t7")
	} else {
		vsymReach("not-selected")
		vsymAssert(rt.state == hsms.NotSelectedState, "failed-select-does-not-select")
		vsymAssert(rt.t7Expired == 1, "t7-still-expires-after-a-failed-select")
	}
	tr.cancelT7()
	g.t7.Wait()
}
