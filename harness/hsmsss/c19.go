//go:build verif

package hsmsss

import (
	"context"
	"time"

	"github.com/arloliu/go-secs/v2/hsms"
)

// ---- C19: linktest failure accounting ----

// refLinktestStep is a direct transcription of the documented rules for a probe that timed out:
//
//	suppression off: every timeout counts.
//	suppression on:  a frame received after the probe went out, or a reply outstanding, is life:
//	                 the timeout is forgiven and the run of consecutive failures restarts at 0;
//	                 a frame received since the last COUNTED failure restarts the run at 1;
//	                 otherwise the run grows by one.
func refLinktestStep(suppress bool, recvNow, sentAt, inflight int64, fails int, recvAtLastFail int64) (int, int64, bool) {
	if suppress {
		if recvNow > sentAt || inflight > 0 {
			return 0, recvAtLastFail, true
		}
		if fails > 0 && recvNow > recvAtLastFail {
			return 1, recvNow, false
		}
	}
	return fails + 1, recvNow, false
}

// VerifC19_Reducer: the real reducers on fully symbolic inputs against the transcription.
func VerifC19_Reducer() {
	vsymExpect("counted")
	vsymExpect("credited")
	suppress := vsymBool()
	recvNow, sentAt, inflight, recvAtLastFail := vsymI64(), vsymI64(), vsymI64(), vsymI64()
	fails := vsymInt()
	vsymAssume(fails >= 0 && fails < 1<<30)
	nf, nr, cr := linktestFailureStep(suppress, recvNow, sentAt, inflight, fails, recvAtLastFail)
	wf, wr, wc := refLinktestStep(suppress, recvNow, sentAt, inflight, fails, recvAtLastFail)
	vsymAssert(nf == wf && nr == wr && cr == wc, "failure-step-matches-rules")
	if cr {
		vsymReach("credited")
		vsymAssert(suppress, "credit-only-with-suppression")
	} else {
		vsymReach("counted")
		vsymAssert(nf >= 1, "counted-failure-makes-run-positive")
	}
	if !suppress {
		vsymAssert(nf == fails+1 && !cr, "without-suppression-every-timeout-counts")
	}
	go2 := linktestDisconnectRecheck(suppress, inflight, recvNow, sentAt)
	vsymAssert(go2 == (!suppress || (inflight <= 0 && recvNow <= sentAt)), "recheck-matches-rules")
}

// c19Round kinds (what the peer / the application does in one probe round)
const (
	c19Silent       = iota // nothing received, probe times out
	c19Answered            // probe answered
	c19TrafficFirst        // a frame is received just before the interval elapses
	c19InflightPre         // a reply is outstanding when the interval elapses (and still after)
	c19RecvDuring          // probe times out, but a frame arrives after it went out
	c19InflightPost        // probe times out, a data send became outstanding meanwhile
	c19LocalSendFirst      // WE send a frame just before the interval elapses (no life from the peer), probe then times out
	c19Kinds
)

// VerifC19_LoopVT: the real runLinktest loop under virtual time, driven by a scripted history of
// rounds; oracle = the documented rules folded over the same history.
func VerifC19_LoopVT() {
	vsymExpect("dropped-at-threshold")
	vsymExpect("survived")
	rounds := 4
	if vsymTier() == 1 {
		rounds = 6
	}
	threshold := 1 + vsymChoose(3)
	suppress := vsymBool()
	const interval = int64(10 * time.Second)
	const t6 = int64(5 * time.Second)

	rt := &vrt{state: hsms.SelectedState, timers: hsms.TimerConfig{T6: time.Duration(t6)}, ltThresh: threshold, suppression: suppress}
	tr := newVT(rt, true)
	tr.clockBase = time.Now()
	tr.resetActivityStamps()
	ctx, cancel := context.WithCancel(context.Background())
	defer cancel()

	script := make([]int, rounds)
	for i := range script {
		script[i] = vsymChoose(c19Kinds)
	}

	// reference run state (the documented rules folded over the history)
	wantFails := 0
	var wantRecvAtLastFail int64
	wantDown := false
	probes, wantProbes := 0, 0
	round := 0
	secondExpiry := false // the round's timer was re-armed for the remainder of the interval
	skipRound := false    // the round ended without a probe (reply outstanding)
	pre := false          // between the timer expiry and the probe
	clearInflight := false

	h := &c19RT{vrt: rt}
	// The loop calls rt.State() once per timer expiry, before anything else: the scripted
	// "before the round" events happen there.
	h.onState = func() hsms.ConnState {
		if skipRound {
			skipRound = false
			rt.inflight = 0 // the outstanding reply has arrived meanwhile
			round++
		}
		if clearInflight {
			clearInflight = false
			rt.inflight = 0 // the reply outstanding during the previous probe has arrived meanwhile
		}
		if round >= rounds {
			return hsms.NotSelectedState // history exhausted: leave Selected, the loop returns
		}
		pre = true
		if secondExpiry {
			return hsms.SelectedState
		}
		switch script[round] {
		case c19TrafficFirst:
			tr.lastRecvStamp.Store(tr.monoNanos())
			if suppress {
				secondExpiry = true
			}
		case c19LocalSendFirst:
			// our own traffic postpones the probe (rule 1) but proves nothing about the peer
			tr.lastSendStamp.Store(tr.monoNanos())
			if suppress {
				secondExpiry = true
			}
		case c19InflightPre:
			rt.inflight = 1
		}
		return hsms.SelectedState
	}
	h.onInflight = func() int64 {
		if pre && suppress && rt.inflight > 0 {
			skipRound = true // rule 2: no probe while a reply is outstanding
			pre = false
		}
		return rt.inflight
	}
	rt.writeResult = func(msg hsms.Message) (hsms.Message, error) {
		probes++
		pre = false
		secondExpiry = false
		vsymAssert(msg.Type() == hsms.LinktestReqType, "probe-is-linktest-req")
		if suppress {
			vsymAssert(rt.inflight == 0, "no-probe-while-reply-outstanding")
			vsymAssert(tr.sinceLastActivity() >= time.Duration(interval), "no-probe-within-interval-of-traffic")
		}
		kind := script[round]
		sentAt := tr.monoNanos()
		var err error
		switch kind {
		case c19Answered:
			vsymAdvance(1000)
			tr.lastRecvStamp.Store(tr.monoNanos())
		default:
			if kind == c19RecvDuring {
				vsymAdvance(1000)
				tr.lastRecvStamp.Store(tr.monoNanos())
			}
			if kind == c19InflightPost {
				rt.inflight = 1
			}
			vsymAdvance(t6)
			err = hsms.ErrT6Timeout
		}
		if err == nil {
			wantFails = 0
		} else {
			prev := wantRecvAtLastFail
			wantFails, wantRecvAtLastFail, _ = refLinktestStep(suppress, tr.lastRecvStamp.Load(), sentAt, rt.inflight, wantFails, wantRecvAtLastFail)
			if wantFails >= threshold {
				if !suppress || (rt.inflight <= 0 && tr.lastRecvStamp.Load() <= sentAt) {
					wantDown = true
				} else {
					wantRecvAtLastFail = prev
					wantFails = 0
				}
			}
		}
		if kind == c19InflightPost || kind == c19InflightPre {
			clearInflight = true
		}
		round++
		return nil, err
	}
	var sr suppressionRuntime
	if suppress {
		sr = h
	}
	tr.rt = h
	tr.wg.linktest.Add(1)
	for i := 0; i < rounds; i++ {
		if suppress && script[i] == c19InflightPre {
			continue // no probe while a reply is outstanding
		}
		wantProbes++
	}

	tr.runLinktest(ctx, tr.wg, time.Duration(interval), sr)

	if len(rt.tcpDown) > 0 {
		vsymReach("dropped-at-threshold")
	} else {
		vsymReach("survived")
	}
	vsymAssert((len(rt.tcpDown) > 0) == wantDown, "dropped-exactly-when-the-rules-say")
	vsymAssert(len(rt.tcpDown) <= 1, "at-most-one-TCPDown")
	if !wantDown {
		vsymAssert(probes == wantProbes, "probe-count-per-suppression-rules")
	}
	allAnswered := true
	silent, maxSilent := 0, 0
	for _, k := range script {
		if k != c19Answered {
			allAnswered = false
		}
		if k == c19Silent {
			silent++
			if silent > maxSilent {
				maxSilent = silent
			}
		} else {
			silent = 0
		}
	}
	if allAnswered {
		vsymAssert(len(rt.tcpDown) == 0, "answering-peer-never-dropped")
	}
	if maxSilent >= threshold {
		vsymAssert(len(rt.tcpDown) == 1, "silent-peer-dropped-at-threshold")
	}
	if suppress {
		// a peer that shows life in every round in a way the rules forgive is never dropped
		forgiven := true
		for _, k := range script {
			if k == c19Silent || k == c19TrafficFirst || k == c19LocalSendFirst {
				forgiven = false
			}
		}
		if forgiven {
			vsymAssert(len(rt.tcpDown) == 0, "peer-showing-life-never-dropped")
		}
	}
}

// c19RT adds call-backs on the runtime reads the loop performs, so the scripted history can be
// synchronised with the loop's own steps without touching the code under test.
type c19RT struct {
	*vrt
	onState    func() hsms.ConnState
	onInflight func() int64
}

func (r *c19RT) State() hsms.ConnState { return r.onState() }

func (r *c19RT) LinktestSuppression() bool { return true }
func (r *c19RT) DataMsgInflight() int64    { return r.onInflight() }
func (r *c19RT) Timers() hsms.TimerConfig {
	return r.vrt.Timers()
}

// VerifC19_EveryFrameIsLife: "shows life" is any complete inbound frame. The real receive loop
// reads ONE frame with all ten header bytes symbolic (every SType incl. undefined ones, every
// PType, solicited or orphan responses, data while selected or not) plus 0..1 body byte, with the
// receive-activity stamp preset to a sentinel: afterwards the stamp the linktest rules consult has
// been refreshed, whatever the frame was and however it was answered. (A slow-but-alive peer's late
// Linktest.rsp is an orphan response: it must still count.)
func VerifC19_EveryFrameIsLife() {
	vsymExpect("stamped")
	state := []hsms.ConnState{hsms.NotSelectedState, hsms.SelectedState}[vsymChoose(2)]
	rt := &vrt{state: state, timers: hsms.TimerConfig{T8: time.Second}}
	tr := newVT(rt, vsymBool())
	clock := int64(0)
	tr.now = func() time.Time { return vsymMonoTime(clock) }
	hdr := vsymBytes(10)
	body := vsymBytes(vsymChoose(2))
	// a Separate.req / a frame that ends the loop is fine: the stamp is taken before dispatch
	frame := append([]byte{0, 0, 0, byte(10 + len(body))}, hdr...)
	frame = append(frame, body...)
	if vsymBool() {
		// it answers a transaction we have open
		rt.pending = append(rt.pending, [4]byte{hdr[6], hdr[7], hdr[8], hdr[9]})
	}
	arrival := int64(7 * time.Second)
	conn := &vconn{stream: frame, delays: []int64{arrival}, clock: &clock}
	tr.conn = conn
	tr.lastRecvStamp.Store(-1) // a sentinel no clock reading produces
	tr.wg.recv.Add(1)
	tr.recvLoop(tr.wg)
	vsymReach("stamped")
	vsymAssert(tr.lastRecvStamp.Load() >= 0, "every-complete-inbound-frame-counts-as-receive-activity")
}
