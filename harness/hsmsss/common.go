//go:build verif

package hsmsss

import (
	"context"
	"errors"
	"io"
	"net"
	"time"

	"github.com/arloliu/go-secs/v2/hsms"
)

// ---- harness-side model of the connection core seen from the transport (hsms.TransportRuntime) ----
//
// vrt records every call the transport makes and keeps the E37 selected/not-selected word with the
// same commit semantics as the core (CommitSelected succeeds only from NotSelected; SelectLost only
// leaves Selected). The real supervisor behind these calls is the subject of C05.

type vrtSent struct {
	msg   hsms.Message
	async bool
}

type vrt struct {
	state      hsms.ConnState
	timers     hsms.TimerConfig
	sessionID  uint16
	ltInterval time.Duration
	ltThresh   int
	sysCounter uint32

	delivered [][]byte
	sent      []vrtSent
	tcpDown   []error
	tcpUp     int
	t7Expired int
	selLost   int
	commits   int
	routed    []hsms.Message

	// open transaction keys (system bytes) RouteReply hits on
	pending [][4]byte

	// scripted WriteMessage results (linktest harness)
	writeResult func(msg hsms.Message) (hsms.Message, error)

	suppression bool
	inflight    int64
}

var _ hsms.TransportRuntime = (*vrt)(nil)

func (r *vrt) TCPUp(conn net.Conn) {
	r.tcpUp++
	if r.state == hsms.NotConnectedState {
		r.state = hsms.NotSelectedState
	}
}
func (r *vrt) TCPDown(cause error) { r.tcpDown = append(r.tcpDown, cause) }
func (r *vrt) CommitSelected() bool {
	r.commits++
	if r.state == hsms.NotSelectedState {
		r.state = hsms.SelectedState
		return true
	}
	return false
}
func (r *vrt) SelectLost() {
	r.selLost++
	if r.state == hsms.SelectedState {
		r.state = hsms.NotSelectedState
	}
}
func (r *vrt) T7Expired() { r.t7Expired++ }
func (r *vrt) DeliverOwnedFrame(frame []byte) error {
	r.delivered = append(r.delivered, frame)
	return nil
}
func (r *vrt) RouteReply(msg hsms.Message) bool {
	r.routed = append(r.routed, msg)
	sb := msg.SystemBytes()
	for i, k := range r.pending {
		if k == sb {
			r.pending = append(r.pending[:i:i], r.pending[i+1:]...)
			return true
		}
	}
	return false
}
func (r *vrt) RouteData(msg *hsms.DataMessage) error { return nil }
func (r *vrt) WriteMessage(ctx context.Context, msg hsms.Message) (hsms.Message, error) {
	r.sent = append(r.sent, vrtSent{msg: msg})
	if r.writeResult != nil {
		return r.writeResult(msg)
	}
	return nil, nil
}
func (r *vrt) WriteMessageNoReply(ctx context.Context, msg hsms.Message) error {
	r.sent = append(r.sent, vrtSent{msg: msg})
	return nil
}
func (r *vrt) SendAsync(ctx context.Context, msg hsms.Message) error {
	r.sent = append(r.sent, vrtSent{msg: msg, async: true})
	return nil
}
func (r *vrt) State() hsms.ConnState           { return r.state }
func (r *vrt) Done() <-chan struct{}           { return nil }
func (r *vrt) Timers() hsms.TimerConfig        { return r.timers }
func (r *vrt) SessionID() uint16               { return r.sessionID }
func (r *vrt) LinktestInterval() time.Duration { return r.ltInterval }
func (r *vrt) LinktestFailThreshold() int      { return r.ltThresh }
func (r *vrt) NextSystemBytes() [4]byte {
	r.sysCounter++
	v := r.sysCounter
	return [4]byte{byte(v >> 24), byte(v >> 16), byte(v >> 8), byte(v)}
}

// suppression capability (only consulted when the harness wraps vrt in vrtS)
type vrtS struct{ *vrt }

func (r vrtS) LinktestSuppression() bool { return r.suppression }
func (r vrtS) DataMsgInflight() int64    { return r.inflight }

// newVT builds a transport around a model runtime, bypassing dial/accept.
func newVT(rt hsms.TransportRuntime, active bool) *transport {
	t := &transport{cfg: Config{active: active}, metrics: &ConnectionMetrics{}, wg: &genWG{}, allocFrame: makeFrame, rt: rt}
	t.genCtx = context.Background()
	t.clockBase = vsymMonoTime(0)
	return t
}

// ---- harness-side net.Conn serving a scripted byte stream in scripted segments ----

type vdeadline struct {
	t     time.Time
	fresh bool
}

type vtimeoutErr struct{}

func (vtimeoutErr) Error() string   { return "i/o timeout (model)" }
func (vtimeoutErr) Timeout() bool   { return true }
func (vtimeoutErr) Temporary() bool { return true }

type vconn struct {
	stream []byte
	pos    int
	cuts   []int   // ascending stream offsets at which a Read stops short
	delays []int64 // delay (ns) before the bytes after cut i arrive; delays[0] applies to the first byte
	seg    int
	clock  *int64 // shared virtual clock (ns)
	dl     vdeadline
	reads  int
	closed bool
	wrote  []byte

	// observations for the oracle
	deadlineAtRead []time.Time // deadline in force at each Read
	posAtRead      []int
	nowAtRead      []int64
	freshAtRead    []bool
	timedOut       bool
}

func (c *vconn) nextStop() int {
	for _, k := range c.cuts {
		if k > c.pos {
			return k
		}
	}
	return len(c.stream)
}

func (c *vconn) Read(p []byte) (int, error) {
	c.reads++
	c.deadlineAtRead = append(c.deadlineAtRead, c.dl.t)
	c.posAtRead = append(c.posAtRead, c.pos)
	c.freshAtRead = append(c.freshAtRead, c.dl.fresh)
	c.dl.fresh = false
	if c.pos >= len(c.stream) {
		return 0, io.EOF
	}
	// the bytes of this segment arrive after the scripted delay
	var d int64
	if c.seg < len(c.delays) {
		d = c.delays[c.seg]
	}
	arrive := *c.clock + d
	if !c.dl.t.IsZero() {
		dl := c.dl.t.Sub(vsymMonoTime(0)).Nanoseconds()
		if arrive > dl {
			// the kernel honours the deadline: the read fails at the deadline
			if dl > *c.clock {
				*c.clock = dl
			}
			// the remaining delay still has to elapse before the data is there
			if c.seg < len(c.delays) {
				c.delays[c.seg] = arrive - *c.clock
			}
			c.timedOut = true
			return 0, vtimeoutErr{}
		}
	}
	*c.clock = arrive
	if c.seg < len(c.delays) {
		c.delays[c.seg] = 0
	}
	stop := c.nextStop()
	n := stop - c.pos
	if n > len(p) {
		n = len(p)
	}
	copy(p, c.stream[c.pos:c.pos+n])
	c.pos += n
	if c.pos == stop {
		c.seg++
	}
	return n, nil
}

func (c *vconn) Write(p []byte) (int, error) {
	if c.closed {
		return 0, errors.New("write on closed conn (model)")
	}
	c.wrote = append(c.wrote, p...)
	return len(p), nil
}
func (c *vconn) Close() error                       { c.closed = true; return nil }
func (c *vconn) LocalAddr() net.Addr                { return nil }
func (c *vconn) RemoteAddr() net.Addr               { return nil }
func (c *vconn) SetDeadline(t time.Time) error      { return nil }
func (c *vconn) SetWriteDeadline(t time.Time) error { return nil }
func (c *vconn) SetReadDeadline(t time.Time) error {
	c.dl = vdeadline{t: t, fresh: true}
	return nil
}

func contextWithCancel() (context.Context, context.CancelFunc) {
	return context.WithCancel(context.Background())
}
