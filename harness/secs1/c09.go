//go:build verif

package secs1

import (
	"context"
	"errors"
	"net"
	"time"

	"github.com/arloliu/go-secs/v2/hsms"
)

// ---- C09 (SECS-I transport half): a frame is handed to the line engine of the generation that
// owns the caller's socket, or refused; never to a successor's engine ----

type c09Conn struct{ id int }

func (c *c09Conn) Read([]byte) (int, error)         { return 0, errors.New("c09Conn: read") }
func (c *c09Conn) Write(p []byte) (int, error)      { return len(p), nil }
func (c *c09Conn) Close() error                     { return nil }
func (c *c09Conn) LocalAddr() net.Addr              { return nil }
func (c *c09Conn) RemoteAddr() net.Addr             { return nil }
func (c *c09Conn) SetDeadline(time.Time) error      { return nil }
func (c *c09Conn) SetReadDeadline(time.Time) error  { return nil }
func (c *c09Conn) SetWriteDeadline(time.Time) error { return nil }

// VerifC09_Secs1BindingVT: Write(conn1, frame) while the transport's published generation is: none,
// generation 1 (conn1), or generation 2 (another socket); with generation 1's engine taking the
// request and answering (ok / error), not taking it while teardown is broadcast, or taking it and
// teardown is broadcast before it answers. One preemption before each call instruction of Write,
// at which the published generation is switched to generation 2.
func VerifC09_Secs1BindingVT() {
	vsymExpect("handed-off")
	vsymExpect("refused")
	K := 60
	t := &transport{cfg: Config{deviceID: vsymU16() & 0x7FFF, isEquip: vsymBool()}}
	c1, c2 := &c09Conn{1}, &c09Conn{2}
	g1 := &genState{conn: c1, sendReqCh: make(chan *sendReq), genDone: make(chan struct{})}
	g2 := &genState{conn: c2, sendReqCh: make(chan *sendReq), genDone: make(chan struct{})}
	published := vsymChoose(3) // 0 none, 1 generation 1, 2 generation 2
	switch published {
	case 1:
		t.gen.Store(g1)
	case 2:
		t.gen.Store(g2)
	}
	engine := vsymChoose(4)       // 0 takes and succeeds, 1 takes and fails, 2 teardown instead of taking, 3 takes, then teardown before answering
	switchAt := vsymChoose(K + 1) // K: never
	engErr := errors.New("model: line engine failed")
	sys := [4]byte{vsymU8(), vsymU8(), vsymU8(), vsymU8()}
	hdr := []byte{0, 0, 0, 12, 0, 1, 0x81, 1, 0, 0, sys[0], sys[1], sys[2], sys[3]}
	bufs := net.Buffers{hdr, []byte{0xA5, vsymU8()}}
	took1, took2 := 0, 0
	done := make(chan int, 3)
	quit := make(chan struct{}) // releases the model engines at the end of the run
	var err error
	if switchAt < K {
		vsymPreemptAt(switchAt)
	}
	wdone := make(chan int, 1)
	go func() {
		err = t.Write(context.Background(), c1, bufs)
		wdone <- 0
	}()
	// generation 1's line engine
	go func() {
		switch engine {
		case 0, 1, 3:
			select {
			case req := <-g1.sendReqCh:
				took1++
				switch engine {
				case 0:
					req.done <- nil
				case 1:
					req.done <- engErr
				default:
					close(g1.genDone)
				}
			case <-quit: // the engine just stays parked if nothing is handed to it
			}
		default:
			// teardown is broadcast once Write is parked at the hand-off (virtual time only moves
			// when every goroutine is blocked)
			time.Sleep(time.Millisecond)
			close(g1.genDone)
		}
		done <- 1
	}()
	// generation 2's line engine must never see the frame
	go func() {
		select {
		case <-g2.sendReqCh:
			took2++
		case <-quit:
		}
		done <- 2
	}()
	// the switch happens at the preemption instant (this goroutine runs when Write is preempted or blocks)
	if switchAt < K {
		go func() { t.gen.Store(g2) }()
	}
	<-wdone
	vsymPreemptAt(-1)
	close(quit)
	<-done
	<-done
	vsymPreemptCovered(K)
	vsymAssert(took2 == 0, "never-handed-to-the-successor-generations-engine")
	vsymAssert(took1 <= 1, "handed-off-at-most-once")
	if took1 == 1 {
		vsymReach("handed-off")
		switch engine {
		case 0:
			vsymAssert(err == nil, "engine-success-is-the-result")
		case 1:
			vsymAssert(err == engErr, "engine-error-is-the-result")
		default:
			vsymAssert(errors.Is(err, hsms.ErrConnClosed), "teardown-while-awaiting-the-result-gives-closed")
		}
	} else {
		vsymReach("refused")
		vsymAssert(errors.Is(err, hsms.ErrConnClosed), "not-handed-off-means-connection-closed")
	}
	if published != 1 {
		vsymAssert(took1 == 0 && errors.Is(err, hsms.ErrConnClosed), "foreign-or-missing-generation-refused")
	}
}
