//go:build verif

package secs1

import (
	"net"
	"time"

	"github.com/arloliu/go-secs/v2/hsms"
	"github.com/arloliu/go-secs/v2/internal/wire"
)

// ---- C17: SECS-I blocks on the wire (SEMI E4 §8) and inbound reassembly (§9.4) ----

// refBlockWire lays out one E4 block: [len][R|dev_hi][dev_lo][W|stream][function][E|num_hi][num_lo]
// [sys0..3][body...][sum_hi][sum_lo], sum = 16-bit arithmetic sum of header and body bytes.
func refBlockWire(dev uint16, r bool, stream, fn byte, w bool, num uint16, last bool, sys [4]byte, body []byte) []byte {
	h := []byte{byte(dev >> 8), byte(dev), stream & 0x7F, fn, byte(num >> 8), byte(num), sys[0], sys[1], sys[2], sys[3]}
	if r {
		h[0] |= 0x80
	}
	if w {
		h[2] |= 0x80
	}
	if last {
		h[4] |= 0x80
	}
	out := []byte{byte(10 + len(body))}
	out = append(out, h...)
	out = append(out, body...)
	var sum uint16
	for _, b := range out[1:] {
		sum += uint16(b)
	}
	return append(out, byte(sum>>8), byte(sum))
}

func newVAssembler(isEquip bool, dev uint16, t4 time.Duration, clock *int64, frames *[][]byte) *assembler {
	a := newAssembler(Config{isEquip: isEquip, deviceID: dev}, func(f []byte) error {
		*frames = append(*frames, f)
		return nil
	}, func() hsms.TimerConfig { return hsms.TimerConfig{T4: t4} }, &ConnectionMetrics{}, nil)
	a.now = func() time.Time { return vsymMonoTime(*clock) }
	return a
}

// VerifC17_Send: a data frame of body length L (every boundary) through the real splitFrame and
// appendTo; the blocks on the wire are compared with the E4 layout; then the same wire blocks go
// through the real parseBlock and assembler of the opposite role and must deliver the message
// byte-identically, once.
func VerifC17_Send() {
	vsymExpect("sent")
	lens := []int{0, 1, 243, 244, 245, 488, 489}
	if vsymTier() == 1 {
		lens = append(lens, 733)
	}
	L := lens[vsymChoose(len(lens))]
	// body: a fixed pattern with symbolic bytes at the positions that matter (first/last byte of the
	// message and both sides of every block boundary); keeps each block's checksum a sum of few
	// symbolic bytes
	body := make([]byte, L)
	for i := range body {
		body[i] = byte(i*13 + 7)
	}
	for _, i := range []int{0, 243, 244, 487, 488, 731, 732, L - 1} {
		if i >= 0 && i < L {
			body[i] = vsymU8()
		}
	}
	dev := vsymU16() & 0x7FFF
	isEquip := vsymBool()
	b2, fn := vsymU8(), vsymU8()
	sys := [4]byte{vsymU8(), vsymU8(), vsymU8(), vsymU8()}
	hsmsHdr := []byte{vsymU8(), vsymU8(), b2, fn, 0, 0, sys[0], sys[1], sys[2], sys[3]}
	prefix := append([]byte{0, 0, 0, 0}, hsmsHdr...)
	var bufs net.Buffers
	switch {
	case L == 0:
		bufs = net.Buffers{prefix}
	case vsymBool() && L > 1:
		// a body handed over as two slices (list bodies arrive like that)
		k := 1 + vsymChoose(2)
		bufs = net.Buffers{prefix, body[:k], body[k:]}
	default:
		bufs = net.Buffers{prefix, body}
	}
	tr := &transport{cfg: Config{deviceID: dev, isEquip: isEquip}}
	blocks, err := tr.splitFrame(hsmsHdr, bufs)
	vsymAssert(err == nil, "split-ok")
	want := (L + 243) / 244
	if L == 0 {
		want = 1
	}
	vsymReach("sent")
	vsymAssert(len(blocks) == want, "block-count")
	var clock int64
	var frames [][]byte
	rx := newVAssembler(!isEquip, dev, time.Second, &clock, &frames)
	off := 0
	for i, blk := range blocks {
		n := L - off
		if n > 244 {
			n = 244
		}
		wire := blk.appendTo(nil)
		ref := refBlockWire(dev, isEquip, b2&0x7F, fn, b2&0x80 != 0, uint16(i+1), i == want-1, sys, body[off:off+n])
		vsymAssert(len(wire) == len(ref), "wire-block-length")
		for k := 0; k < len(wire) && k < len(ref); k++ {
			vsymAssert(wire[k] == ref[k], "wire-block-bytes-per-E4")
		}
		vsymAssert(n <= 244, "at-most-244-body-bytes-per-block")
		off += n
		// the receiving side
		pb, perr := parseBlock(wire[0], append([]byte(nil), wire[1:]...))
		vsymAssert(perr == nil, "own-block-parses")
		if perr != nil {
			return
		}
		clock += 1000
		vsymAssert(rx.accept(pb) == nil, "accept-ok")
		if i < want-1 {
			vsymAssert(len(frames) == 0, "not-delivered-before-the-last-block")
		}
	}
	vsymAssert(len(frames) == 1, "delivered-exactly-once")
	if len(frames) == 1 {
		f := frames[0]
		vsymAssert(len(f) == 10+L, "delivered-frame-length")
		if len(f) == 10+L {
			vsymAssert(f[0] == byte(dev>>8) && f[1] == byte(dev) && f[2] == b2 && f[3] == fn && f[4] == 0 && f[5] == 0 &&
				f[6] == sys[0] && f[7] == sys[1] && f[8] == sys[2] && f[9] == sys[3], "delivered-header")
			for k := 0; k < L; k++ {
				vsymAssert(f[10+k] == body[k], "delivered-body-byte-identical")
			}
		}
	}
}

// VerifC17_ParseBlock: the real parseBlock on an arbitrary length byte and arbitrary contents:
// accepted iff 10 <= length <= 254, exactly length+2 bytes follow and the checksum matches.
func VerifC17_ParseBlock() {
	vsymExpect("accepted")
	vsymExpect("rejected")
	lb := vsymU8()
	n := 10 + vsymChoose(5) // 10..14 bytes follow
	rest := vsymBytes(n)
	blk, err := parseBlock(lb, rest)
	ok := int(lb) >= 10 && int(lb) <= 254 && n == int(lb)+2
	if ok {
		var sum uint16
		for _, b := range rest[:n-2] {
			sum += uint16(b)
		}
		ok = sum == uint16(rest[n-2])<<8|uint16(rest[n-1])
	}
	vsymAssert((err == nil) == ok, "accepts-exactly-the-E4-well-formed-blocks")
	if err == nil {
		vsymReach("accepted")
		var h [10]byte
		copy(h[:], rest[:10])
		vsymAssert(blk.header == h && blk.body.Len() == n-12, "parsed-header-and-body")
	} else {
		vsymReach("rejected")
	}
}

// ---- inbound reassembly against a transcription of the E4 §9.4.4 receive algorithm ----

type refAsm struct {
	isEquip    bool
	dev        uint16
	t4         int64
	partial    [][]byte // wire headers+bodies of the open message: each entry header(10)+body
	expected   uint16
	lastTime   int64
	lastHeader [10]byte
	haveLast   bool
}

func hdrOf(b []byte) (h [10]byte) { copy(h[:], b[:10]); return }

func sameMsg(a, b [10]byte) bool {
	// everything but the block number / E-bit (bytes 4,5)
	return a[0] == b[0] && a[1] == b[1] && a[2] == b[2] && a[3] == b[3] && a[6] == b[6] && a[7] == b[7] && a[8] == b[8] && a[9] == b[9]
}

// step returns the delivered frame ([10-byte HSMS header || body]) or nil.
func (r *refAsm) step(b []byte, now int64) []byte {
	h := hdrOf(b)
	dev := (uint16(h[0])<<8 | uint16(h[1])) & 0x7FFF
	rbit := h[0]&0x80 != 0
	num := (uint16(h[4])<<8 | uint16(h[5])) & 0x7FFF
	ebit := h[4]&0x80 != 0
	if dev != r.dev {
		return nil // not addressed to this device
	}
	if rbit == r.isEquip {
		return nil // wrong direction
	}
	if len(r.partial) > 0 && now-r.lastTime > r.t4 {
		r.partial = nil // inter-block timeout: the partial message is discarded
	}
	if r.haveLast && h == r.lastHeader {
		return nil // retransmitted duplicate of the last accepted block
	}
	if len(r.partial) > 0 {
		if !(num == r.expected && sameMsg(h, hdrOf(r.partial[0]))) {
			r.partial = nil // out of sequence / foreign header: abort, re-evaluate as a first block
		}
	}
	if len(r.partial) == 0 {
		if !(num == 1 || (num == 0 && ebit)) {
			return nil
		}
	}
	r.partial = append(r.partial, b)
	r.expected = num + 1
	r.lastTime = now
	r.lastHeader, r.haveLast = h, true
	if !ebit {
		return nil
	}
	first := hdrOf(r.partial[0])
	f := []byte{first[0] & 0x7F, first[1], first[2], first[3], 0, 0, first[6], first[7], first[8], first[9]}
	for _, p := range r.partial {
		f = append(f, p[10:]...)
	}
	r.partial = nil
	return f
}

// VerifC17_Assembler: K inbound blocks with fully symbolic headers, 0..1 body byte and arrival gaps
// in {0, T4, T4+1ns}: the frames the real assembler delivers are exactly the reference's, in order,
// byte-identical; accept never returns an error (no block ever takes the link down).
func VerifC17_Assembler() {
	vsymExpect("delivered")
	vsymExpect("dropped")
	K := 2
	if vsymTier() == 1 {
		K = 3
	}
	isEquip := vsymBool()
	dev := vsymU16() & 0x7FFF
	const t4 = int64(45 * time.Second)
	var clock int64
	var frames [][]byte
	a := newVAssembler(isEquip, dev, time.Duration(t4), &clock, &frames)
	ref := &refAsm{isEquip: isEquip, dev: dev, t4: t4}
	var wantFrames [][]byte
	for i := 0; i < K; i++ {
		h := vsymBytes(10)
		body := vsymBytes(vsymChoose(2))
		switch vsymChoose(3) {
		case 1:
			clock += t4
		case 2:
			clock += t4 + 1
		}
		raw := append(append([]byte(nil), h...), body...)
		var hh [10]byte
		copy(hh[:], h)
		// the block as the line layer hands it over after the checksum check (parseBlock itself is
		// decided by VerifC17_ParseBlock)
		blk := block{header: hh, body: wire.ChunkOf(body)}
		err := a.accept(blk)
		vsymAssert(err == nil, "a-bad-block-never-takes-the-link-down")
		if f := ref.step(raw, clock); f != nil {
			wantFrames = append(wantFrames, f)
		}
		vsymAssert(len(frames) == len(wantFrames), "delivers-exactly-the-complete-in-order-messages")
		if len(frames) != len(wantFrames) {
			return
		}
	}
	if len(frames) > 0 {
		vsymReach("delivered")
	} else {
		vsymReach("dropped")
	}
	for i := range frames {
		vsymAssert(len(frames[i]) == len(wantFrames[i]), "delivered-frame-length")
		for k := 0; k < len(frames[i]) && k < len(wantFrames[i]); k++ {
			vsymAssert(frames[i][k] == wantFrames[i][k], "delivered-frame-byte-identical")
		}
	}
}


// VerifC17_T4PerGap: a three-block message whose inter-block gaps are each 0, T4 or T4+1ns: it is
// delivered iff EVERY gap is within T4 (T4 is an inter-block timer: a long message may take longer
// than T4 in total).
func VerifC17_T4PerGap() {
	vsymExpect("delivered")
	vsymExpect("discarded")
	const t4 = int64(45 * time.Second)
	var clock int64
	var frames [][]byte
	dev := vsymU16() & 0x7FFF
	a := newVAssembler(true, dev, time.Duration(t4), &clock, &frames)
	gaps := [2]int64{}
	for i := range gaps {
		gaps[i] = []int64{0, t4, t4 + 1}[vsymChoose(3)]
	}
	sys := [4]byte{vsymU8(), 2, 3, 4}
	mk := func(num uint16, last bool, b byte) block {
		h := [10]byte{byte(dev >> 8), byte(dev), 0x81, 0x0B, byte(num >> 8), byte(num), sys[0], sys[1], sys[2], sys[3]}
		if last {
			h[4] |= 0x80
		}
		return block{header: h, body: wire.ChunkOf([]byte{b})}
	}
	vsymAssert(a.accept(mk(1, false, 0x11)) == nil, "accept-1")
	clock += gaps[0]
	vsymAssert(a.accept(mk(2, false, 0x22)) == nil, "accept-2")
	clock += gaps[1]
	vsymAssert(a.accept(mk(3, true, 0x33)) == nil, "accept-3")
	if gaps[0] <= t4 && gaps[1] <= t4 {
		vsymReach("delivered")
		vsymAssert(len(frames) == 1, "message-with-every-gap-within-T4-delivered")
		if len(frames) == 1 {
			f := frames[0]
			vsymAssert(len(f) == 13 && f[10] == 0x11 && f[11] == 0x22 && f[12] == 0x33, "three-block-message-intact")
		}
	} else {
		vsymReach("discarded")
		vsymAssert(len(frames) == 0, "message-with-a-gap-beyond-T4-not-delivered")
	}
}
