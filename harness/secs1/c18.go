//go:build verif

package secs1

import (
	"context"
	"errors"
	"net"
	"time"

	"github.com/arloliu/go-secs/v2/hsms"
	"github.com/arloliu/go-secs/v2/internal/wire"
)

// ---- C18: per-block discipline of the SECS-I line protocol over a faulty line ----

// VerifC18_CorruptionDetected: for a block with a body of 0, 1, 2 or 244 symbolic bytes, replacing
// ANY single character of its header, body or checksum (position chosen symbolically, replacement
// symbolic and different from the original) makes the receiver's parseBlock reject it. The length
// character is not in this class: E4's checksum does not cover it.
func VerifC18_CorruptionDetected() {
	vsymExpect("rejected")
	sizes := []int{0, 1, 2}
	if vsymTier() == 1 {
		sizes = append(sizes, 244)
	}
	n := sizes[vsymChoose(len(sizes))]
	var h [10]byte
	for i := range h {
		h[i] = vsymU8()
	}
	body := vsymBytes(n)
	w := block{header: h, body: wire.ChunkOf(body)}.appendTo(nil)
	_, err0 := parseBlock(w[0], append([]byte(nil), w[1:]...))
	vsymAssert(err0 == nil, "clean-block-accepted")
	pos := 1 + vsymChoose(len(w)-1)
	repl := vsymU8()
	vsymAssume(repl != w[pos])
	bad := append([]byte(nil), w...)
	bad[pos] = repl
	_, err := parseBlock(bad[0], bad[1:])
	vsymReach("rejected")
	vsymAssert(err != nil, "single-character-corruption-detected")
}

// ---- a scripted half-duplex line ----

type lineEv struct {
	timeout bool
	data    []byte
}

type vline struct {
	script  []lineEv
	pos     int
	wrote   [][]byte // each Write call
	dl      time.Time
	clock   *int64
	reads   int
}

func (c *vline) Read(p []byte) (int, error) {
	c.reads++
	if c.pos >= len(c.script) || c.script[c.pos].timeout {
		if c.pos < len(c.script) {
			c.pos++
		}
		// the read fails at the deadline in force
		if !c.dl.IsZero() {
			d := c.dl.Sub(vsymMonoTime(0)).Nanoseconds()
			if d > *c.clock {
				*c.clock = d
			}
		}
		return 0, vtimeout{}
	}
	ev := c.script[c.pos]
	n := copy(p, ev.data)
	if n < len(ev.data) {
		c.script[c.pos].data = ev.data[n:]
	} else {
		c.pos++
	}
	return n, nil
}
func (c *vline) Write(p []byte) (int, error) {
	c.wrote = append(c.wrote, append([]byte(nil), p...))
	return len(p), nil
}
func (c *vline) Close() error                       { return nil }
func (c *vline) LocalAddr() net.Addr                { return nil }
func (c *vline) RemoteAddr() net.Addr               { return nil }
func (c *vline) SetDeadline(t time.Time) error      { return nil }
func (c *vline) SetWriteDeadline(t time.Time) error { return nil }
func (c *vline) SetReadDeadline(t time.Time) error  { c.dl = t; return nil }

type vtimeout struct{}

func (vtimeout) Error() string   { return "i/o timeout (model)" }
func (vtimeout) Timeout() bool   { return true }
func (vtimeout) Temporary() bool { return true }

func newVLine(conn *vline, isEquip bool, clock *int64) *lineIO {
	l := newLineIO(conn, Config{isEquip: isEquip}, func() hsms.TimerConfig {
		return hsms.TimerConfig{T1: 500 * time.Millisecond, T2: 10 * time.Second}
	}, &ConnectionMetrics{})
	l.now = func() time.Time { return vsymMonoTime(*clock) }
	return l
}

// count the single-character handshake writes and the block-data writes
func (c *vline) tally() (enqs, eots, acks, naks, blocks int) {
	for _, w := range c.wrote {
		if len(w) == 1 {
			switch w[0] {
			case enq:
				enqs++
			case eot:
				eots++
			case ack:
				acks++
			case nak:
				naks++
			}
		} else {
			blocks++
		}
	}
	return
}

// VerifC18_Sender: the real sendBlock (retry / contention discipline) against every script of up
// to N peer responses over {EOT, ENQ, ACK, NAK, garbage, silence, a valid block, a corrupt block}.
func VerifC18_Sender() {
	vsymExpect("acked")
	vsymExpect("failed")
	vsymExpect("yielded")
	N := 4
	if vsymTier() == 1 {
		N = 5
	}
	isEquip := vsymBool()
	limit := vsymChoose(3)
	var clock int64
	// the block the peer (master) sends when this slave yields
	peer := block{header: [10]byte{0x00, 0x01, 0x81, 0x01, 0x80, 0x01, 9, 9, 9, 7}, body: wire.ChunkOf([]byte{0x5A})}.appendTo(nil)
	conn := &vline{clock: &clock}
	kinds := make([]int, N)
	for i := range kinds {
		k := vsymChoose(8)
		kinds[i] = k
		switch k {
		case 0:
			conn.script = append(conn.script, lineEv{data: []byte{eot}})
		case 1:
			conn.script = append(conn.script, lineEv{data: []byte{enq}})
		case 2:
			conn.script = append(conn.script, lineEv{data: []byte{ack}})
		case 3:
			conn.script = append(conn.script, lineEv{data: []byte{nak}})
		case 4:
			conn.script = append(conn.script, lineEv{data: []byte{0x41}}) // not a control character
		case 5:
			conn.script = append(conn.script, lineEv{timeout: true})
		case 6:
			conn.script = append(conn.script, lineEv{data: append([]byte(nil), peer...)})
		default:
			bad := append([]byte(nil), peer...)
			bad[len(bad)-1] ^= 0x01
			conn.script = append(conn.script, lineEv{data: bad})
		}
	}
	l := newVLine(conn, isEquip, &clock)
	mine := block{header: [10]byte{0x80, 0x01, 0x01, 0x03, 0x80, 0x01, 1, 2, 3, 4}, body: wire.ChunkOf([]byte{0xAA, 0x55})}
	mineWire := mine.appendTo(nil)
	var delivered []block
	err := l.sendBlock(context.Background(), mine, limit, func(b block) error {
		delivered = append(delivered, b)
		return nil
	})
	enqs, eots, _, _, blocks := conn.tally()
	// every block-data write is exactly this block, and happens only after an EOT was read
	sawEOT := false
	ri, wi := 0, 0
	_ = ri
	for _, w := range conn.wrote {
		if len(w) > 1 {
			vsymAssert(len(w) == len(mineWire), "data-written-is-the-block")
			for k := range w {
				if k < len(mineWire) {
					vsymAssert(w[k] == mineWire[k], "data-written-is-the-block-bytes")
				}
			}
			wi++
		}
	}
	_ = sawEOT
	vsymAssert(blocks <= enqs, "block-data-only-after-requesting-the-line")
	if isEquip {
		vsymAssert(eots == 0 && len(delivered) == 0, "master-never-yields")
	} else {
		vsymAssert(len(delivered) <= eots, "slave-delivers-only-blocks-it-yielded-for")
		if len(delivered) > 0 {
			vsymReach("yielded")
			for _, d := range delivered {
				vsymAssert(d.header[9] == peer[10] && d.body.Len() == 1, "yielded-block-delivered-intact")
			}
		}
	}
	switch {
	case err == nil:
		vsymReach("acked")
		vsymAssert(blocks >= 1, "success-means-the-block-was-transmitted")
		// success only after an ACK answered the LAST transmission: the event consumed right after the
		// last data write was an ACK
		vsymAssert(c18LastDataAnsweredByACK(conn, kinds), "nil-only-after-ack-of-last-transmission")
	case errors.Is(err, ErrSendFailed):
		vsymReach("failed")
		// between two successful yields at most limit+1 attempts; on failure exactly limit+1 since the last yield
		vsymAssert(c18EnqsSinceLastYield(conn) == limit+1, "send-fails-after-exactly-retry-limit-plus-one-attempts")
	}
	vsymAssert(c18MaxEnqRun(conn) <= limit+1, "never-more-than-retry-limit-plus-one-attempts-between-yields")
	_ = wi
}

// c18EnqsSinceLastYield counts ENQ writes after the last successful yield (an EOT write followed by
// an ACK write: the master's block was received correctly).
func c18EnqsSinceLastYield(c *vline) int {
	n := 0
	for i, w := range c.wrote {
		if len(w) == 1 && w[0] == enq {
			n++
		}
		if len(w) == 1 && w[0] == ack && i > 0 {
			n = 0 // a block received during a yield was ACKed: the postponed send restarts
		}
	}
	return n
}

func c18MaxEnqRun(c *vline) int {
	n, max := 0, 0
	for _, w := range c.wrote {
		if len(w) == 1 && w[0] == enq {
			n++
			if n > max {
				max = n
			}
		}
		if len(w) == 1 && w[0] == ack {
			n = 0
		}
	}
	return max
}

// c18LastDataAnsweredByACK replays the script against the write log: the read that followed the
// last block-data write must have been an ACK event.
func c18LastDataAnsweredByACK(c *vline, kinds []int) bool {
	// the number of script events consumed equals c.pos; the last consumed event answered the last
	// write; sendBlock returns immediately after reading the ACK
	if c.pos == 0 || c.pos > len(kinds) {
		return false
	}
	return kinds[c.pos-1] == 2
}

// VerifC18_Receiver: the real receiveBlock on a symbolic length byte and symbolic contents (with
// optional truncation): ACK is written iff the block is valid, NAK otherwise, never both.
func VerifC18_Receiver() {
	vsymExpect("acked")
	vsymExpect("naked")
	var clock int64
	lb := vsymU8()
	nbody := vsymChoose(2)
	rest := vsymBytes(10 + nbody + 2)
	conn := &vline{clock: &clock}
	arrived := -1 // characters that arrive after the length character (-1: not even that)
	switch vsymChoose(3) {
	case 0: // everything arrives
		conn.script = []lineEv{{data: []byte{lb}}, {data: rest}}
		arrived = len(rest)
	case 1: // the line goes silent after k characters
		k := vsymChoose(len(rest))
		conn.script = []lineEv{{data: []byte{lb}}, {data: rest[:k]}, {timeout: true}}
		arrived = k
	default: // nothing at all
		conn.script = []lineEv{{timeout: true}}
	}
	l := newVLine(conn, vsymBool(), &clock)
	blk, err := l.receiveBlock(context.Background())
	_, _, acks, naks, _ := conn.tally()
	// E4: the receiver takes exactly lb+2 characters after the length character; a block is valid
	// iff 10 <= lb <= 254, that many characters arrive, and the last two are the 16-bit sum of the
	// first lb (a length shorter than what the sender meant is only caught by the checksum)
	valid := false
	if int(lb) >= 10 && int(lb)+2 <= arrived {
		n := int(lb)
		var sum uint16
		for _, b := range rest[:n] {
			sum += uint16(b)
		}
		valid = sum == uint16(rest[n])<<8|uint16(rest[n+1])
	}
	vsymAssert((err == nil) == valid, "accepted-iff-valid")
	vsymAssert(acks+naks == 1, "exactly-one-answer")
	if valid {
		vsymReach("acked")
		vsymAssert(acks == 1, "valid-block-acked")
		var h [10]byte
		copy(h[:], rest[:10])
		vsymAssert(blk.header == h && blk.body.Len() == int(lb)-10, "received-block-header-and-body")
	} else {
		vsymReach("naked")
		vsymAssert(naks == 1, "invalid-block-naked")
	}
}

// VerifC18_DuplicateAfterLostAck: a block retransmitted because its ACK was lost is ACKed again by
// the line layer and dropped by the assembler: delivered exactly once.
func VerifC18_DuplicateAfterLostAck() {
	vsymExpect("once")
	var clock int64
	var frames [][]byte
	dev := vsymU16() & 0x7FFF
	a := newVAssembler(true, dev, 45*time.Second, &clock, &frames)
	h := [10]byte{byte(dev >> 8), byte(dev), vsymU8(), vsymU8(), 0x80, 0x01, vsymU8(), vsymU8(), vsymU8(), vsymU8()}
	w := block{header: h, body: wire.ChunkOf([]byte{vsymU8()})}.appendTo(nil)
	conn := &vline{clock: &clock, script: []lineEv{{data: append([]byte(nil), w...)}, {data: append([]byte(nil), w...)}}}
	l := newVLine(conn, true, &clock)
	for i := 0; i < 2; i++ {
		blk, err := l.receiveBlock(context.Background())
		vsymAssert(err == nil, "retransmission-received")
		if err == nil {
			vsymAssert(a.accept(blk) == nil, "accept-ok")
		}
	}
	_, _, acks, naks, _ := conn.tally()
	vsymReach("once")
	vsymAssert(acks == 2 && naks == 0, "retransmission-acked-again")
	vsymAssert(len(frames) == 1, "delivered-exactly-once")
}

// VerifC18_RetransmitThenMultiBlockIntact: one receiver (one lineIO, one assembler) through a line
// fault followed by good traffic: a two-block message whose first block arrives corrupted (NAK),
// is retransmitted intact (ACK) and is followed by its last block (ACK). The message is delivered
// exactly once and byte-identical, whatever the (symbolic) body bytes are: nothing a later block
// is read into may overlap a block that was already accepted.
func VerifC18_RetransmitThenMultiBlockIntact() {
	vsymExpect("delivered")
	var clock int64
	var frames [][]byte
	dev := vsymU16() & 0x7FFF
	a := newVAssembler(true, dev, 45*time.Second, &clock, &frames)
	sys := [4]byte{vsymU8(), vsymU8(), vsymU8(), vsymU8()}
	h1 := [10]byte{byte(dev >> 8), byte(dev), 0x81, 0x03, 0x00, 0x01, sys[0], sys[1], sys[2], sys[3]}
	h2 := h1
	h2[4], h2[5] = 0x80, 0x02
	b1 := []byte{vsymU8(), vsymU8(), vsymU8()}
	b2 := []byte{vsymU8(), vsymU8()}
	w1 := block{header: h1, body: wire.ChunkOf(b1)}.appendTo(nil)
	w2 := block{header: h2, body: wire.ChunkOf(b2)}.appendTo(nil)
	bad := append([]byte(nil), w1...)
	flip := 1 + vsymU8()%255
	bad[11] ^= flip // one corrupted body character: the checksum no longer matches
	conn := &vline{clock: &clock, script: []lineEv{{data: bad}, {timeout: true}, {data: append([]byte(nil), w1...)}, {data: append([]byte(nil), w2...)}}}
	l := newVLine(conn, true, &clock)
	_, err0 := l.receiveBlock(context.Background())
	vsymAssert(err0 != nil, "corrupted-block-refused")
	for i := 0; i < 2; i++ {
		blk, err := l.receiveBlock(context.Background())
		vsymAssert(err == nil, "good-block-received")
		if err == nil {
			vsymAssert(a.accept(blk) == nil, "accept-ok")
		}
	}
	_, _, acks, naks, _ := conn.tally()
	vsymReach("delivered")
	vsymAssert(acks == 2 && naks == 1, "one-nak-two-acks")
	vsymAssert(len(frames) == 1, "delivered-exactly-once")
	if len(frames) == 1 {
		f := frames[0]
		vsymAssert(len(f) == 15, "header-plus-five-body-bytes")
		if len(f) == 15 {
			vsymAssert(f[10] == b1[0] && f[11] == b1[1] && f[12] == b1[2] && f[13] == b2[0] && f[14] == b2[1], "body-byte-identical-after-a-retransmission")
		}
	}
}
