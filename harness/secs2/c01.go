//go:build verif

package secs2

import "math"

// ---- independent E5 reference encoder (from the standard: format byte = code<<2 | number of
// length bytes, minimal number of length bytes, big-endian payload, list length = child count)

type refNode struct {
	fc    byte
	w     int      // element width for numeric types
	vals  []uint64 // numeric/boolean elements as raw unsigned patterns of width w; bytes for B/A/J
	lsh   uint16
	kids  []*refNode
	empty bool // the EmptyItem (encodes to nothing)
}

func refHeader(out []byte, fc byte, n int) []byte {
	switch {
	case n > 0xFFFF:
		return append(out, fc<<2|3, byte(n>>16), byte(n>>8), byte(n))
	case n > 0xFF:
		return append(out, fc<<2|2, byte(n>>8), byte(n))
	default:
		return append(out, fc<<2|1, byte(n))
	}
}

func refEncode(out []byte, n *refNode) []byte {
	if n.empty {
		return out
	}
	if n.fc == 0 {
		out = refHeader(out, 0, len(n.kids))
		for _, k := range n.kids {
			out = refEncode(out, k)
		}
		return out
	}
	if n.fc == 0o22 {
		out = refHeader(out, n.fc, len(n.vals)+2)
		out = append(out, byte(n.lsh>>8), byte(n.lsh))
		for _, v := range n.vals {
			out = append(out, byte(v))
		}
		return out
	}
	out = refHeader(out, n.fc, len(n.vals)*n.w)
	for _, v := range n.vals {
		for i := n.w - 1; i >= 0; i-- {
			out = append(out, byte(v>>(8*uint(i))))
		}
	}
	return out
}

// c01CheckEncoding compares the real encoders of it against the reference bytes and checks
// EncodedLen, determinism, prefix preservation, and the decode round trip.
func c01CheckEncoding(it Item, ref *refNode, deep bool) {
	vsymAssert(it.Error() == nil, "constructed-item-error-free")
	want := refEncode(nil, ref)
	got := it.ToBytes()
	vsymAssert(len(got) == len(want), "encoded-length-matches-reference")
	vsymAssert(it.EncodedLen() == len(want), "EncodedLen-matches-bytes")
	n := len(got)
	if len(want) < n {
		n = len(want)
	}
	for i := 0; i < n; i++ {
		vsymAssert(got[i] == want[i], "encoded-bytes-match-reference")
	}
	// deterministic
	again := it.ToBytes()
	vsymAssert(len(again) == len(got), "deterministic-length")
	for i := 0; i < len(again) && i < len(got); i++ {
		vsymAssert(again[i] == got[i], "deterministic-bytes")
	}
	// prefix preservation (spare capacity so that append writes in place)
	p0, p1, p2 := vsymU8(), vsymU8(), vsymU8()
	buf := make([]byte, 3, 3+len(want)+4)
	buf[0], buf[1], buf[2] = p0, p1, p2
	app := it.AppendTo(buf)
	vsymAssert(len(app) == 3+len(want), "AppendTo-length")
	if len(app) >= 3 {
		vsymAssert(app[0] == p0 && app[1] == p1 && app[2] == p2, "AppendTo-preserves-prefix")
	}
	for i := 0; i < len(want) && 3+i < len(app); i++ {
		vsymAssert(app[3+i] == want[i], "AppendTo-bytes")
	}
	// tight buffer: must reallocate, not scribble
	tight := []byte{p0, p1, p2}
	app2 := it.AppendTo(tight)
	vsymAssert(len(app2) == 3+len(want), "AppendTo-tight-length")
	vsymAssert(tight[0] == p0 && tight[1] == p1 && tight[2] == p2, "AppendTo-tight-preserves-prefix")
	if !deep {
		return
	}
	// decode round trip
	if len(want) == 0 {
		return
	}
	dec, err := Decode(got)
	vsymAssert(err == nil, "own-encoding-decodes")
	if err != nil || dec == nil {
		return
	}
	vsymReach("roundtrip")
	vsymAssert(Equal(it, dec), "decoded-equals-original")
	vsymAssert(Equal(dec, it), "equal-symmetric")
	vsymAssert(dec.Type() == it.Type(), "decoded-type")
	vsymAssert(dec.Size() == it.Size(), "decoded-size")
	back := dec.ToBytes()
	vsymAssert(len(back) == len(got), "decoded-reencode-length")
	for i := 0; i < len(back) && i < len(got); i++ {
		vsymAssert(back[i] == got[i], "decoded-reencode-bytes")
	}
	// the lock-step value checker of C02 ties the decoded values to the bytes
	end := refCheckItem(dec, got, 0, "c01:")
	vsymAssert(end == len(got), "decoded-consumes-all")
}

// genInts builds an I<w> item of n symbolic elements through one of several argument shapes,
// together with its reference node.
func genInts(w, n, shape int) (Item, *refNode) {
	fc := []byte{0, 0o31, 0o32, 0, 0o34, 0, 0, 0, 0o30}[w]
	ref := &refNode{fc: fc, w: w}
	vals := make([]int64, n)
	for i := range vals {
		v := vsymI64()
		sh := uint(64 - 8*w)
		v = v << sh >> sh // in range for the width
		vals[i] = v
		ref.vals = append(ref.vals, uint64(v))
	}
	args := make([]any, 0, n)
	switch shape {
	case 0: // scalars of the exactly matching Go type
		for _, v := range vals {
			switch w {
			case 1:
				args = append(args, int8(v))
			case 2:
				args = append(args, int16(v))
			case 4:
				args = append(args, int32(v))
			default:
				args = append(args, v)
			}
		}
	case 1: // one slice of the matching type
		switch w {
		case 1:
			s := make([]int8, n)
			for i, v := range vals {
				s[i] = int8(v)
			}
			args = append(args, s)
		case 2:
			s := make([]int16, n)
			for i, v := range vals {
				s[i] = int16(v)
			}
			args = append(args, s)
		case 4:
			s := make([]int32, n)
			for i, v := range vals {
				s[i] = int32(v)
			}
			args = append(args, s)
		default:
			args = append(args, append([]int64(nil), vals...))
		}
	case 2: // Go int scalars
		for _, v := range vals {
			args = append(args, int(v))
		}
	default: // mixed: first as int64 scalar, rest as []int
		if n > 0 {
			args = append(args, vals[0])
			rest := make([]int, 0, n-1)
			for _, v := range vals[1:] {
				rest = append(rest, int(v))
			}
			args = append(args, rest)
		}
	}
	return NewIntItem(w, args...), ref
}

func genUints(w, n, shape int) (Item, *refNode) {
	fc := []byte{0, 0o51, 0o52, 0, 0o54, 0, 0, 0, 0o50}[w]
	ref := &refNode{fc: fc, w: w}
	vals := make([]uint64, n)
	for i := range vals {
		v := vsymU64()
		sh := uint(64 - 8*w)
		v = v << sh >> sh
		vals[i] = v
		ref.vals = append(ref.vals, v)
	}
	args := make([]any, 0, n)
	switch shape {
	case 0:
		for _, v := range vals {
			switch w {
			case 1:
				args = append(args, uint8(v))
			case 2:
				args = append(args, uint16(v))
			case 4:
				args = append(args, uint32(v))
			default:
				args = append(args, v)
			}
		}
	case 1:
		switch w {
		case 1:
			s := make([]uint8, n)
			for i, v := range vals {
				s[i] = uint8(v)
			}
			args = append(args, s)
		case 2:
			s := make([]uint16, n)
			for i, v := range vals {
				s[i] = uint16(v)
			}
			args = append(args, s)
		case 4:
			s := make([]uint32, n)
			for i, v := range vals {
				s[i] = uint32(v)
			}
			args = append(args, s)
		default:
			args = append(args, append([]uint64(nil), vals...))
		}
	case 2:
		for _, v := range vals {
			args = append(args, uint(v))
		}
	default:
		if n > 0 {
			args = append(args, vals[0])
			rest := make([]uint, 0, n-1)
			for _, v := range vals[1:] {
				rest = append(rest, uint(v))
			}
			args = append(args, rest)
		}
	}
	return NewUintItem(w, args...), ref
}

func genFloats(w, n, shape int) (Item, *refNode) {
	ref := &refNode{w: w}
	args := make([]any, 0, n)
	if w == 8 {
		ref.fc = 0o40
		vals := make([]float64, n)
		for i := range vals {
			b := vsymU64()
			vals[i] = math.Float64frombits(b)
			ref.vals = append(ref.vals, b)
		}
		if shape == 1 {
			args = append(args, vals)
		} else {
			for _, v := range vals {
				args = append(args, v)
			}
		}
		return NewFloatItem(8, args...), ref
	}
	ref.fc = 0o44
	vals := make([]float32, n)
	for i := range vals {
		b := vsymU32()
		// NaN payloads change under float32->float64->float32 (quiet bit); the statement's
		// "logical value" for a NaN is "a NaN": exclude NaN bit patterns here (covered concretely
		// by C13's witness table).
		vsymAssume(b&0x7f800000 != 0x7f800000 || b&0x007fffff == 0)
		vals[i] = math.Float32frombits(b)
		ref.vals = append(ref.vals, uint64(b))
	}
	if shape == 1 {
		args = append(args, vals)
	} else {
		for _, v := range vals {
			args = append(args, v)
		}
	}
	return NewFloatItem(4, args...), ref
}

func genBytesLike(kind, n, shape int) (Item, *refNode) {
	b := vsymBytes(n)
	ref := &refNode{w: 1}
	for _, x := range b {
		ref.vals = append(ref.vals, uint64(x))
	}
	switch kind {
	case 0: // binary
		ref.fc = 0o10
		switch shape {
		case 0:
			args := make([]any, 0, n)
			for _, x := range b {
				args = append(args, x)
			}
			return NewBinaryItem(args...), ref
		case 1:
			return NewBinaryItem(append([]byte(nil), b...)), ref
		default:
			args := make([]any, 0, n)
			for _, x := range b {
				args = append(args, int(x))
			}
			return NewBinaryItem(args...), ref
		}
	case 1:
		ref.fc = 0o20
		return NewASCIIItem(string(b)), ref
	case 2:
		ref.fc = 0o21
		return NewJIS8Item(string(b)), ref
	default:
		ref.fc = 0o22
		ref.lsh = vsymU16()
		return NewLocalizedStrItem(ref.lsh, string(b)), ref
	}
}

func genBools(n, shape int) (Item, *refNode) {
	ref := &refNode{fc: 0o11, w: 1}
	vals := make([]bool, n)
	for i := range vals {
		vals[i] = vsymBool()
		if vals[i] {
			ref.vals = append(ref.vals, 1)
		} else {
			ref.vals = append(ref.vals, 0)
		}
	}
	if shape == 1 {
		return NewBooleanItem(vals), ref
	}
	args := make([]any, 0, n)
	for _, v := range vals {
		args = append(args, v)
	}
	return NewBooleanItem(args...), ref
}

// genLeaf chooses one of the 15 leaf kinds.
func genLeaf(kind, n, shape int) (Item, *refNode) {
	switch kind {
	case 0:
		return genInts(1, n, shape)
	case 1:
		return genInts(2, n, shape)
	case 2:
		return genInts(4, n, shape)
	case 3:
		return genInts(8, n, shape)
	case 4:
		return genUints(1, n, shape)
	case 5:
		return genUints(2, n, shape)
	case 6:
		return genUints(4, n, shape)
	case 7:
		return genUints(8, n, shape)
	case 8:
		return genFloats(4, n, shape)
	case 9:
		return genFloats(8, n, shape)
	case 10:
		return genBools(n, shape)
	case 11:
		return genBytesLike(0, n, shape)
	case 12:
		return genBytesLike(1, n, shape)
	case 13:
		return genBytesLike(2, n, shape)
	default:
		return genBytesLike(3, n, shape)
	}
}

// VerifC01_Header: the header function over ALL length values and all format codes.
func VerifC01_Header() {
	vsymExpect("len1")
	vsymExpect("len2")
	vsymExpect("len3")
	vsymExpect("toolarge")
	fcb := vsymU8()
	vsymAssume(fcb < 64)
	n := vsymInt()
	vsymAssume(n >= 0)
	pre := vsymU8()
	dst := make([]byte, 1, 8)
	dst[0] = pre
	out, err := appendHeaderBytesFC(dst, FormatCode(fcb), n)
	if n > 1<<24-1 {
		vsymReach("toolarge")
		vsymAssert(err != nil, "over-limit-rejected")
		vsymAssert(len(out) == 1 && out[0] == pre, "over-limit-leaves-dst")
		return
	}
	vsymAssert(err == nil, "in-limit-accepted")
	want := refHeader([]byte{pre}, fcb, n)
	switch len(want) {
	case 3:
		vsymReach("len1")
	case 4:
		vsymReach("len2")
	case 5:
		vsymReach("len3")
	}
	vsymAssert(len(out) == len(want), "header-length")
	for i := 0; i < len(want) && i < len(out); i++ {
		vsymAssert(out[i] == want[i], "header-bytes")
	}
	vsymAssert(headerLen(n) == len(want)-1, "headerLen-agrees")
}

// VerifC01_Leaf: every leaf type x argument shape x element count 0..3 (thorough 0..4), all
// element values symbolic.
func VerifC01_Leaf() {
	vsymExpect("roundtrip")
	maxN := 3
	if vsymTier() == 1 {
		maxN = 4
	}
	kind := vsymChoose(15)
	n := vsymChoose(maxN + 1)
	shape := vsymChoose(4)
	it, ref := genLeaf(kind, n, shape)
	c01CheckEncoding(it, ref, true)
	// accessors agree with the logical value
	c01CheckAccessors(it, ref)
}

func c01CheckAccessors(it Item, ref *refNode) {
	switch ref.fc {
	case 0o31, 0o32, 0o34, 0o30:
		v, err := it.ToInt()
		vsymAssert(err == nil && len(v) == len(ref.vals) && it.Size() == len(ref.vals), "ToInt-size")
		for i := range v {
			if i < len(ref.vals) {
				vsymAssert(v[i] == int64(ref.vals[i]), "ToInt-value")
				x, err := it.IntAt(i)
				vsymAssert(err == nil && x == int64(ref.vals[i]), "IntAt-value")
			}
		}
		i := 0
		for x := range it.Ints() {
			if i < len(ref.vals) {
				vsymAssert(x == int64(ref.vals[i]), "Ints-value")
			}
			i++
		}
		vsymAssert(i == len(ref.vals), "Ints-count")
	case 0o51, 0o52, 0o54, 0o50:
		v, err := it.ToUint()
		vsymAssert(err == nil && len(v) == len(ref.vals) && it.Size() == len(ref.vals), "ToUint-size")
		for i := range v {
			if i < len(ref.vals) {
				vsymAssert(v[i] == ref.vals[i], "ToUint-value")
				x, err := it.UintAt(i)
				vsymAssert(err == nil && x == ref.vals[i], "UintAt-value")
			}
		}
		i := 0
		for x := range it.Uints() {
			if i < len(ref.vals) {
				vsymAssert(x == ref.vals[i], "Uints-value")
			}
			i++
		}
		vsymAssert(i == len(ref.vals), "Uints-count")
	case 0o40:
		v, err := it.ToFloat()
		vsymAssert(err == nil && len(v) == len(ref.vals), "ToFloat-size")
		for i := range v {
			if i < len(ref.vals) {
				vsymAssert(math.Float64bits(v[i]) == ref.vals[i], "ToFloat-value")
			}
		}
	case 0o44:
		v, err := it.ToFloat()
		vsymAssert(err == nil && len(v) == len(ref.vals), "ToFloat4-size")
		for i := range v {
			if i < len(ref.vals) {
				vsymAssert(math.Float64bits(v[i]) == math.Float64bits(float64(math.Float32frombits(uint32(ref.vals[i])))), "ToFloat4-value")
			}
		}
	case 0o11:
		v, err := it.ToBoolean()
		vsymAssert(err == nil && len(v) == len(ref.vals), "ToBoolean-size")
		for i := range v {
			if i < len(ref.vals) {
				vsymAssert(v[i] == (ref.vals[i] != 0), "ToBoolean-value")
				x, err := it.BoolAt(i)
				vsymAssert(err == nil && x == (ref.vals[i] != 0), "BoolAt-value")
			}
		}
	case 0o10:
		v, err := it.ToBinary()
		vsymAssert(err == nil && len(v) == len(ref.vals), "ToBinary-size")
		for i := range v {
			if i < len(ref.vals) {
				vsymAssert(v[i] == byte(ref.vals[i]), "ToBinary-value")
				x, err := it.ByteAt(i)
				vsymAssert(err == nil && x == byte(ref.vals[i]), "ByteAt-value")
			}
		}
	case 0o20, 0o21, 0o22:
		var s string
		var err error
		switch ref.fc {
		case 0o20:
			s, err = it.ToASCII()
		case 0o21:
			s, err = it.ToJIS8()
		default:
			s, err = it.ToLocalizedStr()
			h, err2 := it.ToLocalizedStrHeader()
			vsymAssert(err2 == nil && h == ref.lsh, "lsh-value")
		}
		vsymAssert(err == nil && len(s) == len(ref.vals), "string-size")
		for i := 0; i < len(s) && i < len(ref.vals); i++ {
			vsymAssert(s[i] == byte(ref.vals[i]), "string-value")
		}
	}
}

// VerifC01_Boundary crosses the 1->2->3 length-byte switch through the real item code: items of
// 255, 256, 65535 and 65536 elements, first and last element symbolic.
func VerifC01_Boundary() {
	sizes := []int{255, 256, 65535, 65536}
	n := sizes[vsymChoose(4)]
	kind := vsymChoose(5)
	first, last := vsymU8(), vsymU8()
	ref := &refNode{w: 1}
	ref.vals = make([]uint64, n)
	for i := range ref.vals {
		ref.vals[i] = uint64(i*7+3) & 0xff
	}
	ref.vals[0], ref.vals[n-1] = uint64(first), uint64(last)
	var it Item
	switch kind {
	case 0:
		ref.fc = 0o10
		b := make([]byte, n)
		for i := range b {
			b[i] = byte(ref.vals[i])
		}
		it = NewBinaryItem(b)
	case 1:
		ref.fc = 0o20
		b := make([]byte, n)
		for i := range b {
			b[i] = byte(ref.vals[i])
		}
		it = NewASCIIItem(string(b))
	case 2:
		ref.fc = 0o51
		b := make([]uint8, n)
		for i := range b {
			b[i] = byte(ref.vals[i])
		}
		it = NewUintItem(1, b)
	case 3:
		ref.fc = 0o11
		b := make([]bool, n)
		for i := range b {
			ref.vals[i] &= 1
			b[i] = ref.vals[i] != 0
		}
		it = NewBooleanItem(b)
	default:
		// I2: n elements -> 2n payload bytes (510, 512, 131070, 131072)
		ref.fc = 0o32
		ref.w = 2
		b := make([]int16, n)
		for i := range b {
			v := int16(ref.vals[i]) - 100
			if i == 0 {
				v = int16(uint16(first)<<8 | uint16(last))
			}
			b[i] = v
			ref.vals[i] = uint64(uint16(v))
		}
		it = NewIntItem(2, b)
	}
	vsymReach("built")
	c01CheckEncoding(it, ref, n <= 256 || vsymTier() == 1)
}

// genTree builds a list tree of the given depth budget; shapes are chosen symbolically. Leaves are
// drawn from kinds (indices into genLeaf) with 0..maxN symbolic elements.
func genTree(depth, maxKids int, kinds []int, maxN int) (Item, *refNode) {
	if depth == 0 || vsymChoose(2) == 0 {
		kind := kinds[vsymChoose(len(kinds))]
		n := vsymChoose(maxN + 1)
		return genLeaf(kind, n, 1)
	}
	k := vsymChoose(maxKids + 1)
	ref := &refNode{fc: 0}
	kids := make([]Item, 0, k)
	for i := 0; i < k; i++ {
		c, r := genTree(depth-1, maxKids, kinds, 1)
		kids = append(kids, c)
		ref.kids = append(ref.kids, r)
	}
	return NewListItem(kids...), ref
}

// VerifC01_Tree: list trees of depth <= 2 with <= 2 children per list over symbolic leaves
// (quick: leaf kinds I2/F4/ASCII; thorough: I1/I8/U2/F4/F8/BOOLEAN/B/A/localized).
func VerifC01_Tree() {
	vsymExpect("roundtrip")
	kinds := []int{1, 8, 12}
	if vsymTier() == 1 {
		kinds = []int{0, 3, 5, 8, 11, 12} // 6 kinds: the 9-kind product (about 600,000 trees) did not finish in 25 minutes
	}
	k := vsymChoose(3)
	ref := &refNode{fc: 0}
	kids := make([]Item, 0, k)
	for i := 0; i < k; i++ {
		c, r := genTree(1, 2, kinds, 2)
		kids = append(kids, c)
		ref.kids = append(ref.kids, r)
	}
	it := L(kids...)
	c01CheckEncoding(it, ref, true)
}

// VerifC01_Tree3: L(T, U1) where T ranges over depth-3 trees (list of lists of lists) with <= 2
// children per list and U2/ASCII leaves of 0..1 elements.
func VerifC01_Tree3() {
	vsymExpect("roundtrip")
	kinds := []int{5, 12}
	ref := &refNode{fc: 0}
	c, r := genTree(2, 2, kinds, 1)
	a := vsymU8()
	kids := []Item{c, U1(a)}
	ref.kids = append(ref.kids, r, &refNode{fc: 0o51, w: 1, vals: []uint64{uint64(a)}})
	it := L(kids...)
	c01CheckEncoding(it, ref, true)
}

// VerifC01_EmptyChild: lists that contain the EmptyItem (which encodes to nothing).
func VerifC01_EmptyChild() {
	vsymExpect("built")
	pos := vsymChoose(3)
	a := vsymU8()
	leaf, lref := U1(a), &refNode{fc: 0o51, w: 1, vals: []uint64{uint64(a)}}
	var kids []Item
	ref := &refNode{fc: 0}
	for i := 0; i < 2; i++ {
		if i == pos {
			kids = append(kids, NewEmptyItem())
			// Logical value: a list header counts the children that are encoded after it; an
			// empty item contributes no bytes, so a faithful E5 encoding cannot count it.
		}
		kids = append(kids, leaf)
		ref.kids = append(ref.kids, lref)
	}
	if pos == 2 {
		kids = append(kids, NewEmptyItem())
	}
	vsymRegion("hasEmptyItemChild")
	vsymReach("built")
	it := L(kids...)
	if it.Error() != nil {
		// refusing such a list is an acceptable answer too
		return
	}
	got := it.ToBytes()
	vsymAssert(it.EncodedLen() == len(got), "EncodedLen-matches-bytes")
	dec, err := Decode(got)
	vsymAssert(err == nil, "own-encoding-decodes")
	if err == nil {
		vsymAssert(Equal(dec, it) || dec.Size() == len(ref.kids), "decoded-equals-original")
	}
}

// VerifC01_Depth: a chain of nested single-child lists of depth 63, 64 and 65 around a symbolic
// leaf: depth <= 64 round-trips, 65 is refused by the decoder.
func VerifC01_Depth() {
	vsymExpect("depth-ok")
	vsymExpect("depth-too-deep")
	d := 63 + vsymChoose(3)
	a := vsymU16()
	var it Item = U2(a)
	ref := &refNode{fc: 0o52, w: 2, vals: []uint64{uint64(a)}}
	for i := 0; i < d; i++ {
		it = L(it)
		ref = &refNode{fc: 0, kids: []*refNode{ref}}
	}
	want := refEncode(nil, ref)
	got := it.ToBytes()
	vsymAssert(len(got) == len(want) && it.EncodedLen() == len(want), "chain-length")
	for i := 0; i < len(got) && i < len(want); i++ {
		vsymAssert(got[i] == want[i], "chain-bytes")
	}
	dec, err := Decode(got)
	if d <= 64 {
		vsymReach("depth-ok")
		vsymAssert(err == nil, "depth<=64-decodes")
		if err == nil {
			vsymAssert(Equal(it, dec), "chain-equal")
		}
	} else {
		vsymReach("depth-too-deep")
		vsymAssert(err != nil, "depth-65-rejected")
	}
}

// VerifC01_Slab: leaf counts crossing the decoder's slab chunk capacities (1, 5, 21, 85): n
// sibling scalar leaves with distinct symbolic values decode to the right values in order and no
// two decoded leaves share storage.
func VerifC01_Slab() {
	vsymExpect("built")
	counts := []int{2, 6, 22}
	if vsymTier() == 1 {
		counts = []int{2, 6, 22, 86}
	}
	n := counts[vsymChoose(len(counts))]
	kind := vsymChoose(3)
	ref := &refNode{fc: 0}
	kids := make([]Item, 0, n)
	vals := make([]uint8, n)
	for i := 0; i < n; i++ {
		vals[i] = vsymU8()
		switch kind {
		case 0:
			kids = append(kids, U1(vals[i]))
			ref.kids = append(ref.kids, &refNode{fc: 0o51, w: 1, vals: []uint64{uint64(vals[i])}})
		case 1:
			kids = append(kids, I1(int8(vals[i])))
			ref.kids = append(ref.kids, &refNode{fc: 0o31, w: 1, vals: []uint64{uint64(vals[i])}})
		default:
			kids = append(kids, A(string([]byte{vals[i]})))
			ref.kids = append(ref.kids, &refNode{fc: 0o20, w: 1, vals: []uint64{uint64(vals[i])}})
		}
	}
	it := L(kids...)
	vsymReach("built")
	want := refEncode(nil, ref)
	got := it.ToBytes()
	vsymAssert(len(got) == len(want), "slab-length")
	for i := 0; i < len(got) && i < len(want); i++ {
		vsymAssert(got[i] == want[i], "slab-bytes")
	}
	dec, err := Decode(got)
	vsymAssert(err == nil, "slab-decodes")
	if err != nil {
		return
	}
	dk, err := dec.ToList()
	vsymAssert(err == nil && len(dk) == n, "slab-children")
	for i := 0; i < n && i < len(dk); i++ {
		switch kind {
		case 0:
			v, err := dk[i].UintAt(0)
			vsymAssert(err == nil && v == uint64(vals[i]), "slab-value")
		case 1:
			v, err := dk[i].IntAt(0)
			vsymAssert(err == nil && v == int64(int8(vals[i])), "slab-value")
		default:
			s, err := dk[i].ToASCII()
			vsymAssert(err == nil && len(s) == 1 && s[0] == vals[i], "slab-value")
		}
		if i > 0 {
			vsymAssert(dk[i] != dk[i-1], "slab-distinct-items")
		}
	}
	vsymAssert(Equal(it, dec), "slab-equal")
}
