//go:build verif

package secs2

import "math"

// ---- independent SEMI E5 reference (written from the standard, on raw bytes only) ----

// refWidth returns the element width of a format code: 0 for list, -1 for unknown.
func refWidth(fc byte) int {
	switch fc {
	case 0o00:
		return 0
	case 0o10, 0o11, 0o20, 0o21, 0o31, 0o51:
		return 1
	case 0o22:
		return 1
	case 0o32, 0o52:
		return 2
	case 0o34, 0o54, 0o44:
		return 4
	case 0o30, 0o50, 0o40:
		return 8
	}
	return -1
}

// refRecognise parses one E5 item at data[pos:] and returns the position after it, or ok=false
// if the grammar (with the nesting limit 64) rejects.
func refRecognise(data []byte, pos, depth int) (end int, ok bool) {
	if pos >= len(data) {
		return pos, false
	}
	fb := data[pos]
	nlb := int(fb & 3)
	fc := fb >> 2
	if nlb == 0 {
		return pos, false
	}
	if pos+1+nlb > len(data) {
		return pos, false
	}
	length := 0
	for i := 0; i < nlb; i++ {
		length = length<<8 | int(data[pos+1+i])
	}
	p := pos + 1 + nlb
	w := refWidth(fc)
	if w < 0 {
		return pos, false
	}
	if fc == 0 {
		if depth+1 > 64 {
			return pos, false
		}
		for i := 0; i < length; i++ {
			var ok2 bool
			p, ok2 = refRecognise(data, p, depth+1)
			if !ok2 {
				return pos, false
			}
		}
		return p, true
	}
	if p+length > len(data) {
		return pos, false
	}
	if length%w != 0 {
		return pos, false
	}
	if fc == 0o22 && length < 2 {
		return pos, false
	}
	return p + length, true
}

func refTypeName(fc byte) string {
	switch fc {
	case 0o00:
		return "list"
	case 0o10:
		return "binary"
	case 0o11:
		return "boolean"
	case 0o20:
		return "ascii"
	case 0o21:
		return "jis8"
	case 0o22:
		return "localized_str"
	case 0o30:
		return "i8"
	case 0o31:
		return "i1"
	case 0o32:
		return "i2"
	case 0o34:
		return "i4"
	case 0o40:
		return "f8"
	case 0o44:
		return "f4"
	case 0o50:
		return "u8"
	case 0o51:
		return "u1"
	case 0o52:
		return "u2"
	case 0o54:
		return "u4"
	}
	return "?"
}

func refBE(data []byte, pos, w int) uint64 {
	var v uint64
	for i := 0; i < w; i++ {
		v = v<<8 | uint64(data[pos+i])
	}
	return v
}

// refCheckItem walks a decoded item and the bytes it was decoded from in lock step and asserts
// that type, size and every element value are the ones E5 assigns to those bytes. Returns the
// position after the item. Only called on inputs the recogniser accepts.
func refCheckItem(it Item, data []byte, pos int, tag string) int {
	fb := data[pos]
	nlb := int(fb & 3)
	fc := fb >> 2
	length := 0
	for i := 0; i < nlb; i++ {
		length = length<<8 | int(data[pos+1+i])
	}
	p := pos + 1 + nlb
	vsymAssert(it != nil, tag+"item-non-nil")
	if it == nil {
		return p
	}
	vsymAssert(it.Error() == nil, tag+"decoded-item-error-free")
	vsymAssert(it.Type() == refTypeName(fc), tag+"type")
	switch fc {
	case 0o00:
		vsymAssert(it.Size() == length, tag+"list-size")
		kids, err := it.ToList()
		vsymAssert(err == nil && len(kids) == length, tag+"list-children")
		for i := 0; i < length && i < len(kids); i++ {
			p = refCheckItem(kids[i], data, p, tag)
		}
		return p
	case 0o10:
		b, err := it.ToBinary()
		vsymAssert(err == nil && len(b) == length && it.Size() == length, tag+"binary-size")
		for i := 0; i < length && i < len(b); i++ {
			vsymAssert(b[i] == data[p+i], tag+"binary-value")
		}
	case 0o11:
		b, err := it.ToBoolean()
		vsymAssert(err == nil && len(b) == length && it.Size() == length, tag+"boolean-size")
		for i := 0; i < length && i < len(b); i++ {
			vsymAssert(b[i] == (data[p+i] != 0), tag+"boolean-value")
		}
	case 0o20, 0o21:
		var s string
		var err error
		if fc == 0o20 {
			s, err = it.ToASCII()
		} else {
			s, err = it.ToJIS8()
		}
		vsymAssert(err == nil && len(s) == length && it.Size() == length, tag+"string-size")
		for i := 0; i < length && i < len(s); i++ {
			vsymAssert(s[i] == data[p+i], tag+"string-value")
		}
	case 0o22:
		s, err := it.ToLocalizedStr()
		h, err2 := it.ToLocalizedStrHeader()
		vsymAssert(err == nil && err2 == nil && len(s) == length-2 && it.Size() == length, tag+"lstr-size")
		vsymAssert(h == uint16(data[p])<<8|uint16(data[p+1]), tag+"lstr-header")
		for i := 0; i < length-2 && i < len(s); i++ {
			vsymAssert(s[i] == data[p+2+i], tag+"lstr-value")
		}
	case 0o31, 0o32, 0o34, 0o30:
		w := refWidth(fc)
		v, err := it.ToInt()
		n := length / w
		vsymAssert(err == nil && len(v) == n && it.Size() == n, tag+"int-size")
		for i := 0; i < n && i < len(v); i++ {
			raw := refBE(data, p+i*w, w)
			sh := uint(64 - 8*w)
			want := int64(raw<<sh) >> sh
			vsymAssert(v[i] == want, tag+"int-value")
		}
	case 0o51, 0o52, 0o54, 0o50:
		w := refWidth(fc)
		v, err := it.ToUint()
		n := length / w
		vsymAssert(err == nil && len(v) == n && it.Size() == n, tag+"uint-size")
		for i := 0; i < n && i < len(v); i++ {
			vsymAssert(v[i] == refBE(data, p+i*w, w), tag+"uint-value")
		}
	case 0o40, 0o44:
		w := refWidth(fc)
		v, err := it.ToFloat()
		n := length / w
		vsymAssert(err == nil && len(v) == n && it.Size() == n, tag+"float-size")
		for i := 0; i < n && i < len(v); i++ {
			raw := refBE(data, p+i*w, w)
			var want uint64
			if w == 8 {
				want = raw
			} else {
				want = math.Float64bits(float64(math.Float32frombits(uint32(raw))))
			}
			vsymAssert(math.Float64bits(v[i]) == want, tag+"float-value")
		}
	}
	return p + length
}

// c02Check is the oracle shared by all C02 harnesses: the real Decode and DecodeOwned on data
// against the reference recogniser and the lock-step value checker, under the allocation guard.
func c02Check(data []byte) {
	end, ok := refRecognise(data, 0, 0)

	input := append([]byte(nil), data...)
	vsymAllocBound(512*len(data) + 8192)
	it, err := Decode(input)
	vsymAllocBound(-1)
	if len(data) == 0 {
		vsymAssert(err == nil && it != nil && it.IsEmpty(), "empty-input-gives-empty-item")
		return
	}
	vsymAssert((err == nil) == ok, "accepts-exactly-the-grammar")
	if err != nil {
		vsymReach("rejected")
		vsymAssert(it == nil, "error-xor-item")
	} else {
		vsymReach("accepted")
		vsymAssert(it != nil, "error-xor-item")
	}
	if err == nil && ok && it != nil {
		p := refCheckItem(it, data, 0, "copy:")
		vsymAssert(p == end, "consumed-length")
		out := it.ToBytes()
		vsymAssert(len(out) == end, "reencode-length")
		vsymAssert(it.EncodedLen() == end, "encodedlen")
		for i := 0; i < end && i < len(out); i++ {
			vsymAssert(out[i] == data[i], "reencode-bytes")
		}
		// the caller's buffer is not written by Decode
		for i := range data {
			vsymAssert(input[i] == data[i], "input-untouched")
		}
	}

	owned := append([]byte(nil), data...)
	vsymAllocBound(512*len(data) + 8192)
	it2, err2 := DecodeOwned(owned)
	vsymAllocBound(-1)
	vsymAssert((err2 == nil) == (err == nil), "owned-agrees-on-acceptance")
	if err2 == nil && err == nil && ok && it2 != nil {
		p := refCheckItem(it2, data, 0, "owned:")
		vsymAssert(p == end, "owned-consumed-length")
		out := it2.ToBytes()
		vsymAssert(len(out) == end, "owned-reencode-length")
		for i := 0; i < end && i < len(out); i++ {
			vsymAssert(out[i] == data[i], "owned-reencode-bytes")
		}
		vsymAssert(Equal(it, it2), "owned-equal-copy")
	}

	// the same bytes as a PREFIX VIEW of a larger buffer (len < cap, stale bytes behind the view):
	// what lies beyond len is not input
	big := make([]byte, len(data), len(data)+9)
	copy(big, data)
	stale := big[:cap(big)]
	for i := len(data); i < len(stale); i++ {
		stale[i] = 0x21 // looks like the start of another item
	}
	it3, err3 := DecodeOwned(big)
	vsymAssert((err3 == nil) == (err == nil), "prefix-view-agrees-on-acceptance")
	if err3 == nil && err == nil && it3 != nil && it != nil {
		vsymAssert(Equal(it, it3), "prefix-view-equal-item")
	}
	it4, err4 := Decode(big)
	vsymAssert((err4 == nil) == (err == nil), "prefix-view-copy-agrees-on-acceptance")
	if err4 == nil && err == nil && it4 != nil && it != nil {
		vsymAssert(Equal(it, it4), "prefix-view-copy-equal-item")
	}
}

// VerifC02_AllShort: every byte string of length 0..N (N = 5 quick, 6 thorough; 7 did not finish
// in 90 minutes and is not registered).
func VerifC02_AllShort() {
	vsymExpect("accepted")
	vsymExpect("rejected")
	max := 5
	if vsymTier() == 1 {
		max = 6
	}
	n := vsymChoose(max + 1)
	data := vsymBytes(n)
	c02Check(data)
}

// VerifC02_Depth: nesting chains of single-child lists of depth 63, 64, 65 and 66 around every
// kind of innermost content: a symbolic 3-byte item, an EMPTY list, a list of two items, nothing
// (truncated). The recogniser's limit is 64 lists.
func VerifC02_Depth() {
	vsymExpect("accepted")
	vsymExpect("rejected")
	d := 63 + vsymChoose(4)
	var data []byte
	for i := 0; i < d-1; i++ {
		data = append(data, 0x01, 0x01)
	}
	// the innermost list (the d-th) and its content
	switch vsymChoose(4) {
	case 0:
		data = append(data, 0x01, 0x01)
		data = append(data, vsymBytes(3)...)
	case 1:
		data = append(data, 0x01, 0x00) // an empty list at depth d
	case 2:
		data = append(data, 0x01, 0x02, 0xA5, 0x01, vsymU8(), 0x01, 0x00) // a leaf and an empty list at depth d+1
	default:
		data = append(data, 0x01, 0x01) // announces a child that is not there
	}
	c02Check(data)
}

// VerifC02_LengthField: 2- and 3-byte length fields with a symbolic format code and a symbolic
// claimed length over a short concrete tail: every claimed length (up to 2^24-1) against the bytes
// actually present; the allocation guard is armed, so pre-sizing from the claimed length before
// checking it against the remaining input is a counterexample.
func VerifC02_LengthField() {
	vsymExpect("accepted")
	vsymExpect("rejected")
	fc := vsymU8() & 0x3F
	tail := 6
	var data []byte
	if vsymBool() {
		data = []byte{fc<<2 | 2, vsymU8(), vsymU8()}
	} else {
		data = []byte{fc<<2 | 3, vsymU8(), vsymU8(), vsymU8()}
	}
	for i := 0; i < tail; i++ {
		data = append(data, byte(0x10+i))
	}
	c02Check(data)
}

// VerifC02_WideLeaf: one item of a multi-byte element type (the eight format codes of width 2, 4,
// 8) with a 1-byte length field: claimed length symbolic in 0..tail+2 over tail = 9 (thorough 17)
// fully symbolic bytes: zero, one (two) elements, lengths that are not a multiple of the width,
// lengths beyond the input, trailing bytes after the item. (Shorter inputs with every format code
// are in AllShort.)
func VerifC02_WideLeaf() {
	vsymExpect("accepted")
	vsymExpect("rejected")
	fc := []byte{0o30, 0o32, 0o34, 0o40, 0o44, 0o50, 0o52, 0o54}[vsymChoose(8)]
	tail := 9
	if vsymTier() == 1 {
		tail = 17
	}
	l := vsymChoose(tail + 3)
	data := []byte{fc<<2 | 1, byte(l)}
	data = append(data, vsymBytes(tail)...)
	c02Check(data)
}
