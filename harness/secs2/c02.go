//go:build verif

package secs2

func VerifProbe() {
	n := vsymChoose(4)
	data := vsymBytes(n)
	it, err := Decode(data)
	if err == nil {
		vsymReach("accepted")
		out := it.ToBytes()
		vsymAssert(len(out) <= len(data), "consumed<=len")
		for i := range out {
			vsymAssert(out[i] == data[i], "reencode-prefix")
		}
	} else {
		vsymReach("rejected")
	}
}
