//go:build verif

package secs2

import "math"

// ---- C12 (secs2 half): items never change after construction / decoding ----
//
// Shape of every harness: build an item from caller-owned slices with SYMBOLIC contents, take a
// full observation, then overwrite every element of every caller-visible slice (constructor
// inputs, the buffer given to a copying decode, every slice any accessor/serializer/append helper
// returned) with symbolic "anything else" values, and observe again: both observations must be
// equal for every content and every overwrite value. An aliased backing array makes the second
// observation a function of the overwrite variables and the solver returns concrete values that
// make it differ.

// c12Obs flattens everything observable of an item through the public accessor surface into
// bytes. outs collects every slice an accessor handed out, so that the caller can scribble on them.
type c12Outs struct {
	bytes  [][]byte
	bools  [][]bool
	ints   [][]int64
	uints  [][]uint64
	floats [][]float64
	lists  [][]Item
}

func c12U64(o []byte, v uint64) []byte {
	return append(o, byte(v>>56), byte(v>>48), byte(v>>40), byte(v>>32), byte(v>>24), byte(v>>16), byte(v>>8), byte(v))
}

func c12Observe(it Item, outs *c12Outs, depth int) []byte {
	var o []byte
	wire := it.ToBytes()
	outs.bytes = append(outs.bytes, wire)
	o = append(o, wire...)
	o = append(o, 0xFE)
	pre := make([]byte, 1, 1+it.EncodedLen()+4)
	pre[0] = 0x5A
	app := it.AppendTo(pre)
	outs.bytes = append(outs.bytes, app)
	o = append(o, app...)
	o = append(o, byte(it.Size()), byte(it.EncodedLen()), byte(len(it.Type())))
	if it.Error() != nil {
		o = append(o, 0xEE)
	}
	if b, err := it.ToBinary(); err == nil {
		outs.bytes = append(outs.bytes, b)
		o = append(o, 0xB0)
		o = append(o, b...)
		ab := it.AppendBinaryTo(make([]byte, 0, len(b)+2))
		outs.bytes = append(outs.bytes, ab)
		o = append(o, ab...)
		for i := range b {
			x, _ := it.ByteAt(i)
			o = append(o, x)
		}
	}
	if b, err := it.ToBoolean(); err == nil {
		outs.bools = append(outs.bools, b)
		o = append(o, 0xB1)
		for i, x := range b {
			y, _ := it.BoolAt(i)
			if x {
				o = append(o, 1)
			} else {
				o = append(o, 0)
			}
			if y {
				o = append(o, 1)
			} else {
				o = append(o, 0)
			}
		}
		for x := range it.Bools() {
			if x {
				o = append(o, 1)
			} else {
				o = append(o, 0)
			}
		}
	}
	if s, err := it.ToASCII(); err == nil {
		o = append(o, 0xA0)
		o = append(o, s...)
	}
	if s, err := it.ToJIS8(); err == nil {
		o = append(o, 0xA1)
		o = append(o, s...)
	}
	if s, err := it.ToLocalizedStr(); err == nil {
		h, _ := it.ToLocalizedStrHeader()
		o = append(o, 0xA2, byte(h>>8), byte(h))
		o = append(o, s...)
	}
	if v, err := it.ToInt(); err == nil {
		outs.ints = append(outs.ints, v)
		o = append(o, 0xC0)
		for i, x := range v {
			y, _ := it.IntAt(i)
			o = c12U64(c12U64(o, uint64(x)), uint64(y))
		}
		for x := range it.Ints() {
			o = c12U64(o, uint64(x))
		}
	}
	if v, err := it.ToUint(); err == nil {
		outs.uints = append(outs.uints, v)
		o = append(o, 0xC1)
		for i, x := range v {
			y, _ := it.UintAt(i)
			o = c12U64(c12U64(o, x), y)
		}
		for x := range it.Uints() {
			o = c12U64(o, x)
		}
	}
	if v, err := it.ToFloat(); err == nil {
		outs.floats = append(outs.floats, v)
		o = append(o, 0xC2)
		for i, x := range v {
			y, _ := it.FloatAt(i)
			o = c12U64(c12U64(o, math.Float64bits(x)), math.Float64bits(y))
		}
		for x := range it.Floats() {
			o = c12U64(o, math.Float64bits(x))
		}
	}
	if l, err := it.ToList(); err == nil && depth < 3 {
		outs.lists = append(outs.lists, l)
		o = append(o, 0xD0, byte(len(l)))
		for i, k := range l {
			o = append(o, c12Observe(k, outs, depth+1)...)
			k2, _ := it.ItemAt(i)
			if k2 != k {
				o = append(o, 0xDD) // ToList and ItemAt must hand out the same (immutable) child
			}
			k3, _ := it.Get(i)
			if k3 != k {
				o = append(o, 0xDE)
			}
		}
		n := 0
		for k := range it.Items() {
			if n < len(l) && k != l[n] {
				o = append(o, 0xDF)
			}
			n++
		}
		o = append(o, byte(n))
	}
	return o
}

// c12Scribble overwrites every element of every slice handed out by accessors.
func c12Scribble(outs *c12Outs) {
	mb := vsymU8()
	vsymAssume(mb != 0)
	for _, b := range outs.bytes {
		for i := range b {
			b[i] ^= mb
		}
		if cap(b) > len(b) {
			b = b[:cap(b)]
			for i := range b {
				b[i] ^= mb
			}
		}
	}
	for _, b := range outs.bools {
		for i := range b {
			b[i] = !b[i]
		}
	}
	m64 := vsymU64()
	vsymAssume(m64 != 0)
	for _, v := range outs.ints {
		for i := range v {
			v[i] ^= int64(m64)
		}
	}
	for _, v := range outs.uints {
		for i := range v {
			v[i] ^= m64
		}
	}
	for _, v := range outs.floats {
		for i := range v {
			v[i] = math.Float64frombits(math.Float64bits(v[i]) ^ m64)
		}
	}
	other := NewBinaryItem(byte(0x99))
	for _, l := range outs.lists {
		for i := range l {
			l[i] = other
		}
	}
}

func c12Same(a, b []byte) bool {
	if len(a) != len(b) {
		return false
	}
	for i := range a {
		if a[i] != b[i] {
			return false
		}
	}
	return true
}

// c12Build constructs an item of the given kind from caller-owned slices of n symbolic elements
// and returns a function that overwrites every element of those slices.
func c12Build(kind, n int) (Item, func()) {
	m8 := vsymU8()
	vsymAssume(m8 != 0)
	m64 := vsymU64()
	vsymAssume(m64 != 0)
	switch kind {
	case 0: // B from []byte
		in := vsymBytes(n)
		return NewBinaryItem(in), func() {
			for i := range in {
				in[i] ^= m8
			}
		}
	case 1: // BOOLEAN from []bool
		in := make([]bool, n)
		for i := range in {
			in[i] = vsymBool()
		}
		return NewBooleanItem(in), func() {
			for i := range in {
				in[i] = !in[i]
			}
		}
	case 2: // I1 from []int8
		in := make([]int8, n)
		for i := range in {
			in[i] = int8(vsymU8())
		}
		return NewIntItem(1, in), func() {
			for i := range in {
				in[i] ^= int8(m8)
			}
		}
	case 3: // I2 from []int16
		in := make([]int16, n)
		for i := range in {
			in[i] = int16(vsymU16())
		}
		return NewIntItem(2, in), func() {
			for i := range in {
				in[i] ^= int16(m8)
			}
		}
	case 4: // I4 from []int32
		in := make([]int32, n)
		for i := range in {
			in[i] = int32(vsymU32())
		}
		return NewIntItem(4, in), func() {
			for i := range in {
				in[i] ^= int32(m8)
			}
		}
	case 5: // I8 from []int64 (the storage type itself: the easiest slice to adopt by mistake)
		in := make([]int64, n)
		for i := range in {
			in[i] = vsymI64()
		}
		return NewIntItem(8, in), func() {
			for i := range in {
				in[i] ^= int64(m64)
			}
		}
	case 6: // U1 from []uint8
		in := vsymBytes(n)
		return NewUintItem(1, in), func() {
			for i := range in {
				in[i] ^= m8
			}
		}
	case 7: // U2 from []uint16
		in := make([]uint16, n)
		for i := range in {
			in[i] = vsymU16()
		}
		return NewUintItem(2, in), func() {
			for i := range in {
				in[i] ^= uint16(m8)
			}
		}
	case 8: // U4 from []uint32
		in := make([]uint32, n)
		for i := range in {
			in[i] = vsymU32()
		}
		return NewUintItem(4, in), func() {
			for i := range in {
				in[i] ^= uint32(m8)
			}
		}
	case 9: // U8 from []uint64 (the storage type itself)
		in := make([]uint64, n)
		for i := range in {
			in[i] = vsymU64()
		}
		return NewUintItem(8, in), func() {
			for i := range in {
				in[i] ^= m64
			}
		}
	case 10: // F4 from []float32
		in := make([]float32, n)
		for i := range in {
			in[i] = math.Float32frombits(vsymU32())
		}
		return NewFloatItem(4, in), func() {
			for i := range in {
				in[i] = math.Float32frombits(math.Float32bits(in[i]) ^ uint32(m8))
			}
		}
	case 11: // F8 from []float64 (the storage type itself)
		in := make([]float64, n)
		for i := range in {
			in[i] = math.Float64frombits(vsymU64())
		}
		return NewFloatItem(8, in), func() {
			for i := range in {
				in[i] = math.Float64frombits(math.Float64bits(in[i]) ^ m64)
			}
		}
	case 12: // I8 from []int (a converting input type)
		in := make([]int, n)
		for i := range in {
			in[i] = int(vsymI64())
		}
		return NewIntItem(8, in), func() {
			for i := range in {
				in[i] ^= int(m64)
			}
		}
	case 13: // B from a mix of a slice and scalars
		in := vsymBytes(n)
		return NewBinaryItem(vsymU8(), in, int(vsymU8())), func() {
			for i := range in {
				in[i] ^= m8
			}
		}
	default: // 14: L from a spread []Item, children chosen among a leaf, an empty item and nil
		in := make([]Item, n)
		for i := range in {
			switch vsymChoose(4) {
			case 0:
				in[i] = NewUintItem(1, vsymU8())
			case 1:
				in[i] = NewEmptyItem()
			case 2:
				in[i] = nil
			default:
				in[i] = NewListItem(NewBinaryItem(vsymU8()))
			}
		}
		other := NewASCIIItem("changed")
		return NewListItem(in...), func() {
			for i := range in {
				in[i] = other
			}
		}
	}
}

const c12Kinds = 15

// VerifC12_Constructed: every constructor kind x 0..3 (thorough 0..4) elements: overwriting the constructor's
// input slices and every slice handed out by every accessor leaves every observation unchanged.
func VerifC12_Constructed() {
	vsymExpect("compared")
	kind := vsymChoose(c12Kinds)
	maxN := 3
	if vsymTier() == 1 {
		maxN = 4
	}
	n := vsymChoose(maxN + 1)
	it, clobberInputs := c12Build(kind, n)
	var outs1, outs2, outs3 c12Outs
	o1 := c12Observe(it, &outs1, 0)
	clobberInputs()
	o2 := c12Observe(it, &outs2, 0)
	vsymAssert(c12Same(o1, o2), "observations-unchanged-after-overwriting-constructor-inputs")
	c12Scribble(&outs1)
	c12Scribble(&outs2)
	o3 := c12Observe(it, &outs3, 0)
	vsymReach("compared")
	vsymAssert(c12Same(o1, o3), "observations-unchanged-after-overwriting-accessor-outputs")
}

// VerifC12_Decoded: the same for items produced by the copying Decode from a caller buffer (the
// buffer is overwritten afterwards) and for items produced by DecodeOwned (ownership of the buffer
// is transferred by contract, so only the accessor outputs are overwritten).
func VerifC12_Decoded() {
	vsymExpect("compared")
	kind := vsymChoose(c12Kinds)
	n := vsymChoose(3)
	src, _ := c12Build(kind, n)
	vsymAssume(src.Error() == nil)
	data := src.ToBytes()
	owned := vsymBool()
	var it Item
	var err error
	if owned {
		it, err = DecodeOwned(data)
	} else {
		it, err = Decode(data)
	}
	vsymAssert(err == nil && it != nil, "well-formed-encoding-decodes")
	if err != nil || it == nil {
		return
	}
	var outs1, outs2, outs3 c12Outs
	o1 := c12Observe(it, &outs1, 0)
	if !owned {
		m := vsymU8()
		vsymAssume(m != 0)
		for i := range data {
			data[i] ^= m
		}
		o2 := c12Observe(it, &outs2, 0)
		vsymAssert(c12Same(o1, o2), "observations-unchanged-after-overwriting-the-decoded-buffer")
	}
	c12Scribble(&outs1)
	c12Scribble(&outs2)
	o3 := c12Observe(it, &outs3, 0)
	vsymReach("compared")
	vsymAssert(c12Same(o1, o3), "decoded-observations-unchanged-after-overwriting-accessor-outputs")
}

// VerifC12_StringItems: ASCII / JIS-8 / localized items (Go strings are immutable; what can alias
// is the wire image): constructed and decoded, outputs overwritten.
func VerifC12_StringItems() {
	vsymExpect("compared")
	b := vsymBytes(vsymChoose(3))
	for i := range b {
		vsymAssume(b[i] < 0x80)
	}
	var it Item
	switch vsymChoose(3) {
	case 0:
		it = NewASCIIItem(string(b))
	case 1:
		it = NewJIS8Item(string(b))
	default:
		it = NewLocalizedStrItem(vsymU16(), string(b))
	}
	decoded := vsymBool()
	var data []byte
	if decoded {
		vsymAssume(it.Error() == nil)
		data = it.ToBytes()
		var err error
		it, err = Decode(data)
		vsymAssert(err == nil, "string-item-decodes")
		if err != nil {
			return
		}
	}
	var outs1, outs2 c12Outs
	o1 := c12Observe(it, &outs1, 0)
	m := vsymU8()
	vsymAssume(m != 0)
	for i := range b {
		b[i] ^= m
	}
	for i := range data {
		data[i] ^= m
	}
	c12Scribble(&outs1)
	o2 := c12Observe(it, &outs2, 0)
	vsymReach("compared")
	vsymAssert(c12Same(o1, o2), "string-item-observations-unchanged")
}
