//go:build verif

package secs2

import "math"

// ---- C16: constructors never panic, clamp instead of wrapping, errors are sticky ----

// specIntBounds: the representable range of a signed integer of w bytes, as a literal table.
func specIntBounds(w int) (lo, hi int64) {
	switch w {
	case 1:
		return -128, 127
	case 2:
		return -32768, 32767
	case 4:
		return -2147483648, 2147483647
	}
	return math.MinInt64, math.MaxInt64
}

func specUintMax(w int) uint64 {
	switch w {
	case 1:
		return 0xFF
	case 2:
		return 0xFFFF
	case 4:
		return 0xFFFFFFFF
	}
	return 0xFFFFFFFFFFFFFFFF
}

// specClampSigned: nearest representable bound for a signed source value.
func specClampSigned(v int64, w int) int64 {
	lo, hi := specIntBounds(w)
	if v < lo {
		return lo
	}
	if v > hi {
		return hi
	}
	return v
}

// specClampUnsignedToInt: an unsigned source into a signed target (compared in the unsigned domain).
func specClampUnsignedToInt(u uint64, w int) int64 {
	_, hi := specIntBounds(w)
	if u > uint64(hi) {
		return hi
	}
	return int64(u)
}

// c16Arg makes one symbolic value of Go integer type t (0..9 = int,int8,int16,int32,int64,uint,
// uint8,uint16,uint32,uint64) and returns it boxed, together with its mathematical value split
// into (signed view, unsigned view, isUnsignedType).
func c16Arg(t int) (any, int64, uint64, bool) {
	raw := vsymU64()
	switch t {
	case 0:
		return int(raw), int64(raw), 0, false
	case 1:
		return int8(raw), int64(int8(raw)), 0, false
	case 2:
		return int16(raw), int64(int16(raw)), 0, false
	case 3:
		return int32(raw), int64(int32(raw)), 0, false
	case 4:
		return int64(raw), int64(raw), 0, false
	case 5:
		return uint(raw), 0, raw, true
	case 6:
		return uint8(raw), 0, uint64(uint8(raw)), true
	case 7:
		return uint16(raw), 0, uint64(uint16(raw)), true
	case 8:
		return uint32(raw), 0, uint64(uint32(raw)), true
	}
	return raw, 0, raw, true
}

// c16Slice builds a slice of Go integer type t holding n symbolic values.
func c16Slice(t, n int) (any, []int64, []uint64, bool) {
	sv := make([]int64, n)
	uv := make([]uint64, n)
	uns := t >= 5
	switch t {
	case 0:
		s := make([]int, n)
		for i := range s {
			s[i] = int(vsymU64())
			sv[i] = int64(s[i])
		}
		return s, sv, uv, uns
	case 1:
		s := make([]int8, n)
		for i := range s {
			s[i] = int8(vsymU8())
			sv[i] = int64(s[i])
		}
		return s, sv, uv, uns
	case 2:
		s := make([]int16, n)
		for i := range s {
			s[i] = int16(vsymU16())
			sv[i] = int64(s[i])
		}
		return s, sv, uv, uns
	case 3:
		s := make([]int32, n)
		for i := range s {
			s[i] = int32(vsymU32())
			sv[i] = int64(s[i])
		}
		return s, sv, uv, uns
	case 4:
		s := make([]int64, n)
		for i := range s {
			s[i] = int64(vsymU64())
			sv[i] = s[i]
		}
		return s, sv, uv, uns
	case 5:
		s := make([]uint, n)
		for i := range s {
			s[i] = uint(vsymU64())
			uv[i] = uint64(s[i])
		}
		return s, sv, uv, uns
	case 6:
		s := make([]uint8, n)
		for i := range s {
			s[i] = vsymU8()
			uv[i] = uint64(s[i])
		}
		return s, sv, uv, uns
	case 7:
		s := make([]uint16, n)
		for i := range s {
			s[i] = vsymU16()
			uv[i] = uint64(s[i])
		}
		return s, sv, uv, uns
	case 8:
		s := make([]uint32, n)
		for i := range s {
			s[i] = vsymU32()
			uv[i] = uint64(s[i])
		}
		return s, sv, uv, uns
	}
	s := make([]uint64, n)
	for i := range s {
		s[i] = vsymU64()
		uv[i] = s[i]
	}
	return s, sv, uv, uns
}

type c16Val struct {
	s   int64
	u   uint64
	uns bool
}

// c16Args builds an argument list in one of the shapes scalar / slice / mixed (scalar then slice,
// possibly of another type) and returns the mathematical values in order.
func c16Args(maxElems int) ([]any, []c16Val) {
	shape := vsymChoose(3)
	t := vsymChoose(10)
	var args []any
	var vals []c16Val
	switch shape {
	case 0:
		n := 1 + vsymChoose(2)
		for i := 0; i < n; i++ {
			a, s, u, uns := c16Arg(t)
			args = append(args, a)
			vals = append(vals, c16Val{s, u, uns})
		}
	case 1:
		n := vsymChoose(maxElems + 1)
		a, sv, uv, uns := c16Slice(t, n)
		args = append(args, a)
		for i := 0; i < n; i++ {
			vals = append(vals, c16Val{sv[i], uv[i], uns})
		}
	default:
		a, s, u, uns := c16Arg(t)
		args = append(args, a)
		vals = append(vals, c16Val{s, u, uns})
		t2 := (t + 3) % 10
		b, sv, uv, uns2 := c16Slice(t2, 1)
		args = append(args, b)
		vals = append(vals, c16Val{sv[0], uv[0], uns2})
	}
	return args, vals
}

// VerifC16_Int: NewIntItem(byteSize, args...) for every int byteSize, every Go integer type,
// scalar/slice/mixed shapes, every value.
func VerifC16_Int() {
	vsymExpect("bad-size")
	vsymExpect("good-size")
	w := vsymInt()
	args, vals := c16Args(2)
	it := NewIntItem(w, args...)
	vsymAssert(it != nil, "item-non-nil")
	if w != 1 && w != 2 && w != 4 && w != 8 {
		vsymReach("bad-size")
		vsymAssert(it.Error() != nil, "invalid-bytesize-gives-error")
		vsymAssert(!Equal(it, it), "errored-item-equals-nothing")
		return
	}
	vsymReach("good-size")
	vsymAssert(it.Error() == nil, "valid-arguments-error-free")
	got, err := it.ToInt()
	vsymAssert(err == nil && len(got) == len(vals) && it.Size() == len(vals), "values-in-order-count")
	for i := range vals {
		if i >= len(got) {
			break
		}
		var want int64
		if vals[i].uns {
			want = specClampUnsignedToInt(vals[i].u, w)
		} else {
			want = specClampSigned(vals[i].s, w)
		}
		vsymAssert(got[i] == want, "clamped-not-wrapped")
	}
	// what reaches the wire is the clamped value, big-endian, in w bytes
	b := it.ToBytes()
	vsymAssert(len(b) == 2+w*len(vals), "wire-length")
	for i := range vals {
		if i >= len(got) || len(b) != 2+w*len(vals) {
			break
		}
		var x uint64
		for k := 0; k < w; k++ {
			x = x<<8 | uint64(b[2+i*w+k])
		}
		sh := uint(64 - 8*w)
		vsymAssert(int64(x<<sh)>>sh == got[i], "wire-carries-clamped-value")
	}
}

// VerifC16_Uint: NewUintItem likewise; negative signed arguments are refused (error), never wrapped.
func VerifC16_Uint() {
	vsymExpect("bad-size")
	vsymExpect("negative-refused")
	vsymExpect("accepted")
	w := vsymInt()
	args, vals := c16Args(2)
	it := NewUintItem(w, args...)
	vsymAssert(it != nil, "item-non-nil")
	if w != 1 && w != 2 && w != 4 && w != 8 {
		vsymReach("bad-size")
		vsymAssert(it.Error() != nil, "invalid-bytesize-gives-error")
		return
	}
	neg := false
	for _, v := range vals {
		if !v.uns && v.s < 0 {
			neg = true
		}
	}
	if neg {
		vsymReach("negative-refused")
		// documented refusal: an error, or (never) a wrapped value
		if it.Error() == nil {
			got, _ := it.ToUint()
			for i := range got {
				if i < len(vals) && !vals[i].uns && vals[i].s < 0 {
					vsymAssert(got[i] == 0, "negative-never-wrapped")
				}
			}
		} else {
			vsymAssert(!Equal(it, it), "errored-item-equals-nothing")
			vsymAssert(len(it.ToBytes()) == 0 && it.EncodedLen() == 0, "errored-item-encodes-nothing")
		}
		return
	}
	vsymReach("accepted")
	vsymAssert(it.Error() == nil, "valid-arguments-error-free")
	got, err := it.ToUint()
	vsymAssert(err == nil && len(got) == len(vals) && it.Size() == len(vals), "values-in-order-count")
	max := specUintMax(w)
	for i := range vals {
		if i >= len(got) {
			break
		}
		u := vals[i].u
		if !vals[i].uns {
			u = uint64(vals[i].s)
		}
		want := u
		if u > max {
			want = max
		}
		vsymAssert(got[i] == want, "clamped-not-wrapped")
	}
	b := it.ToBytes()
	vsymAssert(len(b) == 2+w*len(vals), "wire-length")
	for i := range vals {
		if i >= len(got) || len(b) != 2+w*len(vals) {
			break
		}
		var x uint64
		for k := 0; k < w; k++ {
			x = x<<8 | uint64(b[2+i*w+k])
		}
		vsymAssert(x == got[i], "wire-carries-clamped-value")
	}
}

// VerifC16_ShapesAgree: the same values passed as scalars, as one slice, and as a scalar followed
// by a slice give Equal items with identical bytes (Int and Uint families, all widths).
func VerifC16_ShapesAgree() {
	vsymExpect("compared")
	w := []int{1, 2, 4, 8}[vsymChoose(4)]
	fam := vsymChoose(2)
	a, b, c := vsymU64(), vsymU64(), vsymU64()
	var x, y, z Item
	if fam == 0 {
		x = NewIntItem(w, int64(a), int64(b), int64(c))
		y = NewIntItem(w, []int64{int64(a), int64(b), int64(c)})
		z = NewIntItem(w, int(a), []int{int(b), int(c)})
	} else {
		x = NewUintItem(w, a, b, c)
		y = NewUintItem(w, []uint64{a, b, c})
		z = NewUintItem(w, uint(a), []uint{uint(b), uint(c)})
	}
	vsymReach("compared")
	vsymAssert(x.Error() == nil && y.Error() == nil && z.Error() == nil, "all-error-free")
	vsymAssert(Equal(x, y) && Equal(y, z) && Equal(x, z), "shapes-equal")
	bx, by, bz := x.ToBytes(), y.ToBytes(), z.ToBytes()
	vsymAssert(len(bx) == len(by) && len(by) == len(bz), "shapes-same-length")
	for i := range bx {
		if i < len(by) && i < len(bz) {
			vsymAssert(bx[i] == by[i] && by[i] == bz[i], "shapes-same-bytes")
		}
	}
	// the single-argument fast path agrees with the general path
	var s1, s2 Item
	if fam == 0 {
		s1 = NewIntItem(w, int64(a))
		s2 = NewIntItem(w, []int64{int64(a)})
	} else {
		s1 = NewUintItem(w, a)
		s2 = NewUintItem(w, []uint64{a})
	}
	vsymAssert(Equal(s1, s2), "scalar-fast-path-equals-slice-path")
}

// VerifC16_Float: NewFloatItem for every byteSize and every float/integer argument type.
func VerifC16_Float() {
	vsymExpect("bad-size")
	vsymExpect("f8")
	vsymExpect("f4-clamped")
	vsymExpect("f4-plain")
	w := vsymInt()
	kind := vsymChoose(4)
	var arg any
	var bits uint64 // float64 bit pattern of the mathematical value when a float
	var isFloat, is32 bool
	var ival c16Val
	switch kind {
	case 0:
		bits = vsymU64()
		arg = math.Float64frombits(bits)
		isFloat = true
	case 1:
		bits = vsymU64()
		arg = []float64{math.Float64frombits(bits)}
		isFloat = true
	case 2:
		b32 := vsymU32()
		f := math.Float32frombits(b32)
		arg = f
		bits = math.Float64bits(float64(f))
		isFloat, is32 = true, true
	default:
		t := vsymChoose(10)
		a, s, u, uns := c16Arg(t)
		arg = a
		ival = c16Val{s, u, uns}
	}
	it := NewFloatItem(w, arg)
	vsymAssert(it != nil, "item-non-nil")
	if w != 4 && w != 8 {
		vsymReach("bad-size")
		vsymAssert(it.Error() != nil, "invalid-bytesize-gives-error")
		return
	}
	if !isFloat {
		// integers: exact up to 2^53, refused (error) beyond; never silently rounded
		big := false
		if ival.uns {
			big = ival.u > 1<<53
		} else {
			big = ival.s > 1<<53 || ival.s < -(1<<53)
		}
		if big {
			vsymAssert(it.Error() != nil, "integer-beyond-2^53-refused")
			return
		}
		vsymAssert(it.Error() == nil, "integer-within-2^53-accepted")
		got, err := it.ToFloat()
		vsymAssert(err == nil && len(got) == 1, "integer-count")
		if len(got) == 1 {
			if ival.uns {
				vsymAssert(got[0] >= 0 && uint64(got[0]) == ival.u, "integer-exact")
			} else {
				vsymAssert(int64(got[0]) == ival.s, "integer-exact")
			}
		}
		return
	}
	vsymAssert(it.Error() == nil, "float-argument-error-free")
	got, err := it.ToFloat()
	vsymAssert(err == nil && len(got) == 1 && it.Size() == 1, "float-count")
	if len(got) != 1 {
		return
	}
	gb := math.Float64bits(got[0])
	exp := bits >> 52 & 0x7FF
	if w == 8 || is32 {
		if w == 8 {
			vsymReach("f8")
		}
		vsymAssert(gb == bits, "float-value-unchanged")
	} else {
		// F4 from a float64: NaN and Inf pass, magnitudes above MaxFloat32 clamp to +-MaxFloat32
		const maxF32bits = 0x47EFFFFFE0000000
		mag := bits &^ (1 << 63)
		switch {
		case exp == 0x7FF:
			vsymAssert(gb == bits, "f4-nan-inf-pass")
		case mag > maxF32bits:
			vsymReach("f4-clamped")
			vsymAssert(gb == (bits&(1<<63))|maxF32bits, "f4-clamped-to-maxfloat32")
		default:
			vsymReach("f4-plain")
			vsymAssert(gb == bits, "f4-in-range-unchanged")
		}
	}
	// on the wire a finite argument never becomes an infinity (clamp, not overflow)
	b := it.ToBytes()
	if w == 4 {
		vsymAssert(len(b) == 6, "f4-wire-length")
		if len(b) == 6 && exp != 0x7FF {
			we := (uint32(b[2])<<8 | uint32(b[3])) >> 7 & 0xFF
			vsymAssert(we != 0xFF, "finite-never-encodes-as-inf")
		}
	} else {
		vsymAssert(len(b) == 10, "f8-wire-length")
		if len(b) == 10 {
			var x uint64
			for k := 0; k < 8; k++ {
				x = x<<8 | uint64(b[2+k])
			}
			vsymAssert(x == gb, "f8-wire-bits")
		}
	}
}

// VerifC16_BinaryBool: NewBinaryItem / NewBooleanItem with symbolic bytes, ints and bools.
func VerifC16_BinaryBool() {
	vsymExpect("bin-int-ok")
	vsymExpect("bin-int-refused")
	vsymExpect("bool")
	switch vsymChoose(3) {
	case 0:
		v := vsymInt()
		x := vsymU8()
		it := NewBinaryItem(x, v, []byte{x})
		if v < 0 || v > 255 {
			vsymReach("bin-int-refused")
			// out of range: refused or clamped, never wrapped
			if it.Error() == nil {
				got, _ := it.ToBinary()
				if len(got) == 3 {
					if v < 0 {
						vsymAssert(got[1] == 0, "binary-never-wrapped")
					} else {
						vsymAssert(got[1] == 255, "binary-never-wrapped")
					}
				}
			} else {
				vsymAssert(!Equal(it, it), "errored-item-equals-nothing")
			}
			return
		}
		vsymReach("bin-int-ok")
		vsymAssert(it.Error() == nil, "binary-valid-error-free")
		got, err := it.ToBinary()
		vsymAssert(err == nil && len(got) == 3, "binary-count")
		if len(got) == 3 {
			vsymAssert(got[0] == x && got[1] == byte(v) && got[2] == x, "binary-values-in-order")
		}
	case 1:
		a, b, c := vsymBool(), vsymBool(), vsymBool()
		x := NewBooleanItem(a, b, c)
		y := NewBooleanItem([]bool{a, b, c})
		z := NewBooleanItem(a, []bool{b, c})
		vsymReach("bool")
		vsymAssert(x.Error() == nil && y.Error() == nil && z.Error() == nil, "bool-error-free")
		vsymAssert(Equal(x, y) && Equal(y, z), "bool-shapes-equal")
		got, err := x.ToBoolean()
		vsymAssert(err == nil && len(got) == 3, "bool-count")
		if len(got) == 3 {
			vsymAssert(got[0] == a && got[1] == b && got[2] == c, "bool-values-in-order")
		}
	default:
		// wrong family / unsupported dynamic types
		a := vsymU8()
		vsymAssert(NewBooleanItem(a).Error() != nil, "bool-rejects-integer")
		vsymAssert(NewBooleanItem(nil).Error() != nil, "bool-rejects-nil")
		vsymAssert(NewBinaryItem(true).Error() != nil, "binary-rejects-bool")
		vsymAssert(NewBinaryItem(int64(a)).Error() != nil || func() bool { g, _ := NewBinaryItem(int64(a)).ToBinary(); return len(g) == 1 && g[0] == a }(), "binary-int64-error-or-value")
	}
}

type c16Named int

type c16Struct struct{ x int }

// VerifC16_Unsupported: arguments of unsupported dynamic types give an errored item, never a
// panic, in every numeric family and width.
func VerifC16_Unsupported() {
	vsymExpect("checked")
	w := []int{1, 2, 4, 8}[vsymChoose(4)]
	v := vsymI64()
	p := new(int)
	*p = int(v)
	var bad any
	switch vsymChoose(9) {
	case 0:
		bad = nil
	case 1:
		bad = c16Struct{int(v)}
	case 2:
		bad = p
	case 3:
		bad = c16Named(v)
	case 4:
		bad = make(chan int)
	case 5:
		bad = v != 0
	case 6:
		bad = []any{v}
	case 7:
		bad = uintptr(v)
	default:
		bad = [2]int{int(v), 1}
	}
	fam := vsymChoose(3)
	var it, it2 Item
	switch fam {
	case 0:
		it = NewIntItem(w, bad)
		it2 = NewIntItem(w, int64(1), bad, int64(2))
	case 1:
		it = NewUintItem(w, bad)
		it2 = NewUintItem(w, uint64(1), bad, uint64(2))
	default:
		fw := 4
		if w == 8 {
			fw = 8
		}
		it = NewFloatItem(fw, bad)
		it2 = NewFloatItem(fw, 1.5, bad)
	}
	vsymReach("checked")
	vsymAssert(it.Error() != nil, "unsupported-type-gives-error")
	vsymAssert(it2.Error() != nil, "unsupported-type-among-valid-gives-error")
	vsymAssert(!Equal(it, it) && !Equal(it2, it2), "errored-item-equals-nothing")
	vsymAssert(it.EncodedLen() == 0 && len(it.ToBytes()) == 0, "errored-item-encodes-nothing")
	// floats are the wrong family for Int/Uint items
	if fam == 0 {
		vsymAssert(NewIntItem(w, 1.5).Error() != nil, "int-rejects-float")
	} else if fam == 1 {
		vsymAssert(NewUintItem(w, float32(1)).Error() != nil, "uint-rejects-float")
	}
}

// VerifC16_ErrorSticky: an errored item at any depth <= 3 of a list tree makes the whole tree
// errored, unequal to everything (itself, a clean twin, nil), and encodes to nothing useful at
// the errored node.
func VerifC16_ErrorSticky() {
	vsymExpect("checked")
	a := vsymU8()
	var bad Item
	switch vsymChoose(4) {
	case 0:
		bad = NewIntItem(int(a)|16, 1) // invalid width (>= 16)
	case 1:
		bad = NewUintItem(1, -1-int(a))
	case 2:
		bad = NewBinaryItem(256 + int(a))
	default:
		bad = NewFloatItem(4, "not-a-number")
	}
	good := U1(a)
	depth := vsymChoose(4)
	pos := vsymChoose(2)
	tree, twin := bad, Item(good)
	for d := 0; d < depth; d++ {
		if pos == 0 {
			tree = L(tree, good)
			twin = L(twin, good)
		} else {
			tree = L(good, tree)
			twin = L(good, twin)
		}
	}
	vsymReach("checked")
	vsymAssert(bad.Error() != nil, "leaf-errored")
	vsymAssert(tree.Error() != nil, "error-propagates-to-root")
	vsymAssert(twin.Error() == nil, "clean-twin-error-free")
	vsymAssert(!Equal(tree, tree), "errored-tree-not-equal-itself")
	vsymAssert(!Equal(tree, twin) && !Equal(twin, tree), "errored-tree-not-equal-clean")
	vsymAssert(!Equal(tree, nil) && !Equal(nil, tree), "errored-tree-not-equal-nil")
	vsymAssert(Equal(twin, twin), "clean-twin-equals-itself")
	// a list built from an already-built errored list is errored too (cached cleanliness)
	outer := L(L(tree))
	vsymAssert(outer.Error() != nil, "error-propagates-through-rewrapping")
}

// c16Digits renders a non-negative value below 10^n as exactly n decimal digits chosen
// symbolically (the digits are the inputs; the value is derived), first digit non-zero unless n==1.
func c16Digits(n int) (string, uint64) {
	b := make([]byte, n)
	var v uint64
	for i := 0; i < n; i++ {
		d := vsymU8()
		vsymAssume(d <= 9)
		if i == 0 && n > 1 {
			vsymAssume(d != 0)
		}
		b[i] = '0' + d
		v = v*10 + uint64(d)
	}
	return string(b), v
}

// VerifC16_Strings: numeric strings (decimal with optional sign, hex) are parsed to the same item
// as the scalar of the same value, in every width, with clamping; unparsable strings give errors.
func VerifC16_Strings() {
	vsymExpect("decimal")
	vsymExpect("hex")
	vsymExpect("junk")
	w := []int{1, 2, 4, 8}[vsymChoose(4)]
	switch vsymChoose(3) {
	case 0:
		n := 1 + vsymChoose(4)
		s, v := c16Digits(n)
		neg := vsymBool()
		vsymReach("decimal")
		if neg {
			x := NewIntItem(w, "-"+s)
			y := NewIntItem(w, -int64(v))
			vsymAssert(x.Error() == nil && Equal(x, y), "negative-decimal-string-equals-scalar")
			vsymAssert(NewUintItem(w, "-"+s).Error() != nil, "uint-refuses-negative-string")
		} else {
			x := NewIntItem(w, s)
			y := NewIntItem(w, int64(v))
			vsymAssert(x.Error() == nil && Equal(x, y), "decimal-string-equals-scalar")
			xu := NewUintItem(w, []string{s})
			yu := NewUintItem(w, v)
			vsymAssert(xu.Error() == nil && Equal(xu, yu), "uint-decimal-string-equals-scalar")
			bx, by := xu.ToBytes(), yu.ToBytes()
			vsymAssert(len(bx) == len(by), "string-scalar-same-length")
			for i := range bx {
				if i < len(by) {
					vsymAssert(bx[i] == by[i], "string-scalar-same-bytes")
				}
			}
		}
	case 1:
		h := vsymU8()
		const hexd = "0123456789abcdef"
		s := "0x" + string([]byte{hexd[h>>4], hexd[h&15]})
		vsymReach("hex")
		x := NewUintItem(w, s)
		vsymAssert(x.Error() == nil && Equal(x, NewUintItem(w, uint64(h))), "hex-string-equals-scalar")
		xi := NewIntItem(w, s)
		vsymAssert(xi.Error() == nil && Equal(xi, NewIntItem(w, int64(h))), "int-hex-string-equals-scalar")
	default:
		// one or two arbitrary characters: either a parse error, or a value; never a panic
		n := 1 + vsymChoose(2)
		b := vsymBytes(n)
		s := string(b)
		vsymReach("junk")
		x := NewIntItem(w, s)
		ok := true
		for _, c := range b {
			if !(c >= '0' && c <= '9') {
				ok = false
			}
		}
		if ok && (n == 1 || b[0] != '0') {
			vsymAssert(x.Error() == nil, "digit-string-accepted")
		}
		if b[0] >= 'g' && b[0] <= 'z' {
			vsymAssert(x.Error() != nil, "letter-string-refused")
		}
		_ = NewUintItem(w, s)
		_ = NewBinaryItem(s)
	}
}

// VerifC16_SizeLimit: an item whose payload would not fit the 3-byte length field (more than
// 16,777,215 bytes) is never error-free, for every numeric / boolean / binary family: one element
// beyond the limit gives an error, the largest payload that fits does not. (Concrete zero-filled
// arguments: the size, not the contents, is the subject.)
func VerifC16_SizeLimit() {
	vsymExpect("over")
	vsymExpect("fits")
	const limit = 16777215
	// the 8-byte families: 2^21 elements reach the limit (the 1- and 4-byte families need 2^24 / 2^22
	// elements, more than the executor models; they share the same check expression per family file)
	fam := 2 + vsymChoose(3)
	over := vsymBool()
	width := []int{1, 1, 8, 8, 8, 4}[fam]
	n := limit / width
	if over {
		n++
	}
	var it Item
	switch fam {
	case 0:
		it = NewBinaryItem(make([]byte, n))
	case 1:
		it = NewBooleanItem(make([]bool, n))
	case 2:
		it = NewUintItem(8, make([]uint64, n))
	case 3:
		it = NewIntItem(8, make([]int64, n))
	case 4:
		it = NewFloatItem(8, make([]float64, n))
	default:
		it = NewUintItem(4, make([]uint32, n))
	}
	if over {
		vsymReach("over")
		vsymAssert(it.Error() != nil, "payload-beyond-the-length-field-is-an-error")
		vsymAssert(!Equal(it, it), "errored-item-never-equal")
	} else {
		vsymReach("fits")
		vsymAssert(it.Error() == nil, "largest-payload-that-fits-is-accepted")
		vsymAssert(it.EncodedLen() == 4+n*width, "encoded-length-with-3-length-bytes")
	}
}
