//go:build verif

package secs2

// Harness intrinsics. The symbolic executor intercepts these by name; the bodies below are the
// native implementations used when a solver model is replayed against the real build.

import "time"

func vsymU8() uint8            { return uint8(vsymNext("u8")) }
func vsymU16() uint16          { return uint16(vsymNext("u16")) }
func vsymU32() uint32          { return uint32(vsymNext("u32")) }
func vsymU64() uint64          { return vsymNext("u64") }
func vsymI64() int64           { return int64(vsymNext("u64")) }
func vsymInt() int             { return int(vsymNext("u64")) }
func vsymBool() bool           { return vsymNext("bool") != 0 }
func vsymChoose(n int) int     { v := int(vsymNext("choose")); if n <= 1 { return 0 }; return v % n }
func vsymAssume(ok bool)       { if !ok { panic(vsymAssumeFailed{}) } }
func vsymAssert(ok bool, label string) { if !ok { vsymFail(label) } }
func vsymReach(label string)   {}
func vsymObserve(tag string, v any) { vsymObs(tag, v) }
func vsymAllocBound(n int)     {}
func vsymAliases(a, b any) bool { return false }
func vsymSymbolic() bool       { return false }
func vsymAdvance(ns int64)     {}
func vsymQuiesce()             {}
func vsymNowNS() int64         { return 0 }
func vsymMonoTime(ns int64) time.Time { return vsymMono(ns) }

func vsymBytes(n int) []byte {
	b := make([]byte, n)
	for i := range b {
		b[i] = vsymU8()
	}
	return b
}

type vsymAssumeFailed struct{}

// ---- native replay support (never executed symbolically) ----

type vsymInputVal struct {
	Kind string `json:"kind"`
	Val  uint64 `json:"val"`
}

var (
	vsymVec      []vsymInputVal
	vsymPos      int
	vsymFailures []string
	vsymObsLog   []string
)

func vsymNext(kind string) uint64 {
	if vsymPos >= len(vsymVec) {
		vsymPos++
		return 0
	}
	v := vsymVec[vsymPos]
	vsymPos++
	return v.Val
}

func vsymFail(label string) { vsymFailures = append(vsymFailures, label) }

func vsymObs(tag string, v any) { vsymObsLog = append(vsymObsLog, tag+"="+vsymFmt(v)) }
