//go:build verif

package secs2

import (
	"fmt"
	"time"
	"unsafe"
)

func vsymFmt(v any) string { return fmt.Sprint(v) }

func vsymMono(ns int64) time.Time {
	var t time.Time
	w := (*[3]uint64)(unsafe.Pointer(&t))
	w[0] = uint64(1)<<63 | uint64(1_700_000_000+62135596800-59453308800)<<30
	w[1] = uint64(ns)
	return t
}
