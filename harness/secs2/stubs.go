//go:build verif && gosym

package secs2

import "time"

// Symbolic-side stand-ins for the native-only helpers (intercepted or never called).
func vsymFmt(v any) string           { return "" }
func vsymMono(ns int64) time.Time    { return time.Time{} }
