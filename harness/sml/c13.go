//go:build verif

package sml

import (
	"math"

	"github.com/arloliu/go-secs/v2/hsms"
	"github.com/arloliu/go-secs/v2/secs2"
)

// ---- C13: strict SML encoding and strict parsing are mutual inverses ----

// c13Options picks one of a few option combinations that together use every option value
// (quick: 4 combinations; thorough: the full 2x3x3x2 product).
func c13Options() []EncoderOption {
	opts := []EncoderOption{WithEncoderStrictMode(true)}
	if vsymTier() == 1 && !c13Joint {
		c13Mode = vsymChoose(2)
		if c13Mode == 1 {
			return opts
		}
		if vsymBool() {
			opts = append(opts, WithASCIIQuote(QuoteSingle))
		}
		switch vsymChoose(3) {
		case 1:
			opts = append(opts, WithSFQuote(QuoteSingle))
		case 2:
			opts = append(opts, WithSFQuote(QuoteDouble))
		}
		switch vsymChoose(3) {
		case 1:
			opts = append(opts, WithIndent(""))
		case 2:
			opts = append(opts, WithIndent("\t"))
		}
		if vsymBool() {
			opts = append(opts, WithBinaryStyle(BinaryLiteral))
		}
		return opts
	}
	c13Cfg = vsymChoose(4)
	switch c13Cfg {
	case 1:
		opts = append(opts, WithASCIIQuote(QuoteSingle), WithSFQuote(QuoteSingle), WithIndent(""), WithBinaryStyle(BinaryLiteral))
	case 2:
		opts = append(opts, WithSFQuote(QuoteDouble), WithIndent("\t"))
	case 3:
		opts = append(opts, WithASCIIQuote(QuoteSingle), WithBinaryStyle(BinaryLiteral))
	}
	return opts
}

// c13Header picks stream/function/W. Quick: tied to the option combination (4 joint configurations);
// thorough: boundary values independently.
var c13Cfg int

// c13Joint forces the quick-style joint configurations even in the thorough tier (used for the
// largest ASCII bound, where the full option x header product does not finish).
var c13Joint bool

// c13Mode (thorough tier): 0 = the full option product under one fixed header, 1 = the
// stream/function/W boundary product under the default options. Options shape the item text,
// the header is rendered and parsed by separate code: the two products are explored side by side,
// not multiplied.
var c13Mode int

func c13Header() (byte, byte, bool) {
	if vsymTier() == 1 && !c13Joint {
		if c13Mode == 0 {
			return 1, 1, true
		}
		ss := []byte{0, 1, 9, 10, 99, 100, 127}
		fs := []byte{0, 1, 2, 13, 99, 100, 255}
		s, f := ss[vsymChoose(len(ss))], fs[vsymChoose(len(fs))]
		return s, f, f%2 == 1 && vsymBool()
	}
	switch c13Cfg {
	case 1:
		return 127, 255, true
	case 2:
		return 0, 0, false
	case 3:
		return 10, 100, false
	}
	return 1, 1, true
}

// c13RoundTrip renders msg with the strict encoder and parses it back with the strict parser.
func c13RoundTrip(msg *hsms.DataMessage, opts []EncoderOption) {
	text, err := EncodeMessage(msg, opts...)
	vsymAssert(err == nil, "encode-ok")
	if err != nil {
		return
	}
	msgs, perr := ParseStrict(text)
	vsymAssert(perr == nil, "strict-rendering-parses")
	if perr != nil {
		return
	}
	vsymReach("round-trip")
	vsymAssert(len(msgs) == 1, "exactly-one-message")
	if len(msgs) != 1 {
		return
	}
	got := msgs[0]
	vsymAssert(got.Stream() == msg.Stream() && got.Function() == msg.Function() && got.WaitBit() == msg.WaitBit(), "same-stream-function-wbit")
	a, _ := msg.Item()
	b, berr := got.Item()
	vsymAssert(berr == nil && secs2.Equal(a, b), "equal-body")
}

// VerifC13_ASCII: ASCII items of 0..2 (thorough 3) bytes with ALL 256 values per byte, through every
// option combination.
func VerifC13_ASCII() {
	vsymExpect("round-trip")
	// 0..2 bytes in both tiers (3 symbolic bytes ran past 20 minutes even with joint configurations);
	// the thorough tier widens the option and header products instead
	max := 2
	n := vsymChoose(max + 1)
	b := vsymBytes(n)
	for _, c := range b {
		if c == '>' {
			vsymRegion("asciiContainsGreaterThan")
		}
	}
	// thorough: 3 bytes with the four joint option/header configurations, 0..2 bytes with the full
	// option product (the full product with 3 symbolic bytes ran past 45 minutes)
	c13Joint = n == 3
	opts := c13Options()
	stream, fn, w := c13Header()
	msg, err := hsms.NewDataMessage(stream, fn, w, 0, [4]byte{}, secs2.A(string(b)))
	vsymAssert(err == nil, "message-built")
	if err != nil {
		return
	}
	c13RoundTrip(msg, opts)
}

// VerifC13_Values: binary, boolean, integer (8-bit exhaustive, wider at boundaries), float witness
// values and nesting (lists, empty items) through the strict round trip.
func VerifC13_Values() {
	vsymExpect("round-trip")
	// the four joint option/header configurations in both tiers (the full products over these value
	// tables ran past 15 minutes; the products are exercised by VerifC13_ASCII)
	c13Joint = true
	var it secs2.Item
	switch vsymChoose(11) {
	case 0:
		it = secs2.NewBinaryItem(vsymBytes(vsymChoose(3)))
	case 1:
		it = secs2.NewBooleanItem(vsymBool(), vsymBool())
	case 2:
		if vsymTier() == 1 {
			it = secs2.NewIntItem(1, int64(int8(vsymChoose(256))))
		} else {
			ex := []int64{-128, -100, -99, -10, -9, -1, 0, 9, 10, 99, 100, 127}
			it = secs2.NewIntItem(1, ex[vsymChoose(len(ex))])
		}
	case 3:
		if vsymTier() == 1 {
			it = secs2.NewUintItem(1, uint64(vsymChoose(256)), uint64(7))
		} else {
			ex := []uint64{0, 9, 10, 99, 100, 199, 200, 255}
			it = secs2.NewUintItem(1, ex[vsymChoose(len(ex))], uint64(7))
		}
	case 4:
		ex := []int64{math.MinInt64, math.MaxInt64, math.MinInt32, math.MaxInt32, -32768, 32767, -1, 0}
		w := []int{2, 4, 8}[vsymChoose(3)]
		it = secs2.NewIntItem(w, ex[vsymChoose(len(ex))])
	case 5:
		ex := []uint64{math.MaxUint64, math.MaxUint32, 65535, 1 << 63, 0}
		w := []int{2, 4, 8}[vsymChoose(3)]
		it = secs2.NewUintItem(w, ex[vsymChoose(len(ex))])
	case 6:
		fl := []float64{0, 1, -1, 0.1, 1.0 / 3, 16777217, 1e-7, math.MaxFloat32, math.SmallestNonzeroFloat32, math.Inf(1), math.Inf(-1), math.Copysign(0, -1), 1e21}
		it = secs2.NewFloatItem(4, fl[vsymChoose(len(fl))])
	case 7:
		fl := []float64{0, 1, -1, 0.1, 1.0 / 3, 1e-7, math.MaxFloat64, math.SmallestNonzeroFloat64, math.Inf(1), math.Inf(-1), math.Copysign(0, -1), 123456789.125}
		it = secs2.NewFloatItem(8, fl[vsymChoose(len(fl))], fl[vsymChoose(len(fl))])
	case 8:
		it = secs2.L(secs2.A(string(vsymBytes(1))), secs2.L(), secs2.L(secs2.U1(7), secs2.B(vsymBytes(1))))
	case 9:
		it = secs2.L()
	default:
		it = nil // header-only message
	}
	opts := c13Options()
	stream, fn, w := c13Header()
	msg, err := hsms.NewDataMessage(stream, fn, w, 0, [4]byte{}, it)
	vsymAssert(err == nil, "message-built")
	if err != nil {
		return
	}
	c13RoundTrip(msg, opts)
}

// VerifC13_TextRoundTrip: texts the strict parser accepts re-encode and re-parse to an equal message.
func VerifC13_TextRoundTrip() {
	vsymExpect("round-trip")
	vsymExpect("rejected")
	ts := []string{
		`S1F1 W <A "?">.`,
		`S2F2 <A 0x?1 "x">.`,
		`S1F3 <L <B 0x?F> <BOOLEAN T ~>>.`,
		`S6F11 <U1 ~>.`,
		`S1F1 <A '?' "q">.`,
		`S1F1 <A "\?">.`,                   // an escape inside a quoted run
		`S1F1 <A[1..3] "a" 0x~2>.`,          // size range, quoted run + numeric token
		`'S1F1' W <L[2] <A "?"> <L>>.`,      // quoted stream/function, size hint, nested empty list
		"S1F1 /* c */ <A ~0> // t\n.",       // comments, decimal character token
		`S9F~ <B 0x0~ 17>.`,                 // function code digit, binary tokens
		`S1F1 <I1 -~> .`,                    // signed one-digit value
	}
	text := c14Fill(ts[vsymChoose(len(ts))])
	msgs, err := ParseStrict(text)
	if err != nil || len(msgs) != 1 {
		vsymReach("rejected")
		return
	}
	c13RoundTrip(msgs[0], []EncoderOption{WithEncoderStrictMode(true)})
}
