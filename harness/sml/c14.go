//go:build verif

package sml

import "errors"

// ---- C14: the SML parser is total, resource-bounded, and reports accurate positions ----

// c14Templates: '?' marks a position filled with a symbolic byte; a run of '#' a size hint drawn
// from c14Hints.
var c14Templates = []string{
	`S1F1 <A "?"`,                       // 0 quoted text running into the end of input
	`S1F1 <A ?>.`,                       // 1
	`S1F1 <A[#] "?">.`,                  // 2 size hint + text
	`S1F1 <L[#]>.`,                      // 3 size hints (list)
	`S1F1 <B[#] 0x?F>.`,                 // 4
	`S1F1 <BOOLEAN[#] ~>.`,              // 5 ('~': a symbolic ASCII byte; non-ASCII goes through unicode case tables)
	`S1F1 <I2[#] ?1>.`,                  // 6
	`S1F1 <U4[#] ?>.`,                   // 7
	`S1F1 <J '?'>.`,                     // 8
	`S1F1 <W "?">.`,                     // 9
	"/* ? */ S1F1 // ?\n<U1 1>.",        // 10 comments
	`??`,                                // 11 anything
	`S1F1 <?1 1>.`,                      // 12 item type
	`S1F1 <L <L <L ?>>>.`,               // 13 nesting
	`S?F1 W <U1 1>?`,                    // 14 header
	"S1F1\n<L\n  <A 'x'>\n  <B ?\n>\n.", // 15 error positions on later lines
	`S1F1 <F4[#] 1.5>.`,                 // 16 float with hint
	`S1F1 <A[#] '?'>.`,                  // 17 ascii with hint (strict: Builder.Grow)
	`S1F1 <A "x"?>.`,                    // 18 after the closing quote
	`S1F1 <B? 1>.`,                      // 19 second character of the type
	`S1F? <L[?]>.`,                      // 20 function code / size bracket content
	`S1F1 <A[?`,                         // 21 input ends inside the size bracket
	`S1F1 <A[.?`,                        // 22 ... after the first dot of a range
	`S1F1 <L[1.?`,                       // 23 ... inside a range
	`S1F1 <A[?..?] "x">.`,               // 24 size range with symbolic bounds
	`S1F1 <U1[..#] 1>.`,                 // 25 open-ended range with a hint
	`S1F1 <L[#..#]>.`,                   // 26 range of two hints
	`S1F1 <A "\?" 0x?1>.`,              // 27 escape in a quoted run, numeric token (strict grammar)
	`S1F1 <A 0x4? 1?>.`,                 // 28 numeric ASCII tokens
	"S1F1 <U1 1>.?S2F2 <U1 2>?",         // 29 between / after two messages
	`S1F1 <J[#] "?">.`,                  // 30 JIS-8 with hint
	`S1F1 <W[#] "?">.`,                  // 31 localized with hint
	`S1F1 <L <U1 1>?`,                   // 32 input ends inside a list
	`S1F1 <U1 1 ?`,                      // 33 input ends inside an item
	`'S1F?' W <U1 1>.`,                  // 34 quoted stream/function
	`"S?F1"?<U1 1>.`,                    // 35 double-quoted stream/function
	`S1F1 <BOOLEAN T ~>.`,               // 36 boolean tokens
	`S1F1 <I8 -?>.`,                     // 37 signed text
	`S1F1 W /*??`,                       // 38 block comment that may or may not be closed
	"S1F1 <U1 1> /*?\n.",                // 39 ... after an item
	`S1F1 <U1 1>. /* ?`,                 // 40 ... after the last message
	"S1F1 //?",                          // 41 line comment running into the end of input
}

// c14Hints: the size hints tried wherever a template has a run of '#': small, plausible, absurd,
// and the machine-word boundaries (2^31, 2^32, 2^63, 2^64 and their predecessors).
var c14Hints = []string{"0", "1", "2", "3", "70000", "99999999", "2147483647", "2147483648", "99999999999",
	"4294967295", "4294967296", "9223372036854775807", "9223372036854775808", "18446744073709551615", "18446744073709551616"}

func c14Fill(t string) string {
	var out []byte
	for i := 0; i < len(t); i++ {
		c := t[i]
		switch c {
		case '?':
			out = append(out, vsymU8())
		case '~':
			c := vsymU8()
			vsymAssume(c < 0x80)
			out = append(out, c)
		case '#':
			for i+1 < len(t) && t[i+1] == '#' {
				i++
			}
			out = append(out, c14Hints[vsymChoose(len(c14Hints))]...)
		default:
			out = append(out, c)
		}
	}
	return string(out)
}

// c14Check runs one parser on input and checks the totality obligations.
func c14Check(input string, strict bool) {
	p := NewParser(WithParserStrictMode(strict))
	vsymAllocBound(64*len(input) + 4096)
	// termination and "small polynomial of the input length": the parser may execute at most
	// 4000*len^2 + 200000 SSA instructions (measured maximum on the unchanged tree is far below)
	vsymStepBound(4000*len(input)*len(input) + 200000)
	msgs, err := p.Parse(input)
	vsymStepBound(0)
	vsymAllocBound(-1)
	vsymAssert((msgs == nil) != (err == nil) || (err == nil && msgs != nil), "messages-xor-error")
	if err != nil {
		vsymReach("error")
		vsymAssert(msgs == nil, "no-messages-with-error")
		var pe *ParseError
		if errors.As(err, &pe) {
			vsymAssert(pe.Offset >= 0 && pe.Offset <= len(input), "error-offset-within-input")
			// independent recount of line/column from the offset
			line, col := 1, 1
			for i := 0; i < pe.Offset && i < len(input); i++ {
				if input[i] == '\n' {
					line++
					col = 1
				} else {
					col++
				}
			}
			vsymAssert(pe.Line == line && pe.Col == col, "line-and-column-consistent-with-offset")
		}
		return
	}
	vsymReach("parsed")
	for _, m := range msgs {
		vsymAssert(m != nil, "message-non-nil")
		if m == nil {
			continue
		}
		vsymAssert(m.Stream() <= 127 && !(m.WaitBit() && m.Function()%2 == 0), "parsed-message-is-a-valid-data-message")
		it, ierr := m.Item()
		vsymAssert(ierr == nil && it != nil && it.Error() == nil, "parsed-body-error-free")
	}
}

// c14Region marks the templates on which the recorded (fixed) defects manifested.
func c14Region(t int) {
	switch t {
	case 0:
		vsymRegion("unterminatedQuotedASCII")
	case 2, 3, 4, 5, 6, 7, 16, 17, 25, 26, 30, 31:
		vsymRegion("sizeHintPreallocation")
	}
}

const c14FirstBatch = 21

// VerifC14_Templates: templates 0..20 x strict/non-strict with their holes fully symbolic.
func VerifC14_Templates() {
	vsymExpect("error")
	vsymExpect("parsed")
	t := vsymChoose(c14FirstBatch)
	c14Region(t)
	input := c14Fill(c14Templates[t])
	c14Check(input, vsymBool())
}

// VerifC14_Templates2: templates 21.. (size ranges, truncations, escapes, several messages, quoted
// stream/function, boolean and signed tokens) x strict/non-strict.
func VerifC14_Templates2() {
	vsymExpect("error")
	vsymExpect("parsed")
	var t int
	if vsymTier() == 1 {
		t = c14FirstBatch + vsymChoose(len(c14Templates)-c14FirstBatch)
	} else {
		// quick: the templates with one hole (the two-hole ones, 256 x 256 values each, are thorough only)
		quick := []int{21, 22, 23, 25, 26, 30, 31, 32, 33, 34, 36, 37, 38, 39, 40, 41}
		t = quick[vsymChoose(len(quick))]
	}
	c14Region(t)
	input := c14Fill(c14Templates[t])
	c14Check(input, vsymBool())
}

// VerifC14_Independent: two parser instances used alternately give the same results as alone
// (instances share no mutable state; the concurrent version of this claim is outside).
func VerifC14_Independent() {
	vsymExpect("compared")
	a := c14Fill(`S1F1 <A "?">.`)
	b := c14Fill(`S2F? <U1 ?>.`)
	p1, p2 := NewParser(), NewParser(WithParserStrictMode(true))
	r1, e1 := p1.Parse(a)
	r2, e2 := p2.Parse(b)
	r1b, e1b := p1.Parse(a)
	q1, f1 := NewParser().Parse(a)
	q2, f2 := NewParser(WithParserStrictMode(true)).Parse(b)
	vsymReach("compared")
	vsymAssert((e1 == nil) == (f1 == nil) && (e2 == nil) == (f2 == nil) && (e1b == nil) == (e1 == nil), "same-outcome-as-a-fresh-parser")
	vsymAssert(len(r1) == len(q1) && len(r2) == len(q2) && len(r1b) == len(r1), "same-message-count")
	if e1 == nil && f1 == nil && len(r1) == 1 && len(q1) == 1 {
		vsymAssert(r1[0].Equal(q1[0]) && r1b[0].Equal(r1[0]), "same-message")
	}
	if e2 == nil && f2 == nil && len(r2) == 1 && len(q2) == 1 {
		vsymAssert(r2[0].Equal(q2[0]), "same-message-strict")
	}
}

// c14DigitHint: a size hint of n symbolic decimal digits.
func c14DigitHint(n int) string {
	d := make([]byte, n)
	for i := range d {
		c := vsymU8()
		vsymAssume(c >= '0' && c <= '9')
		d[i] = c
	}
	return string(d)
}

// VerifC14_SymbolicHint: the size hint as a string of symbolic decimal digits, leading zeros
// allowed. Quick: 10 digits (every value below 10^10: across the int32 and uint32 boundaries; the
// 64-bit boundaries are covered by the concrete c14Hints table). Thorough: 20 digits (every value
// below 10^20: across the int64 and uint64 boundaries too), and 1, 10, 19 and 21 digits, on an ASCII, a list and a binary item, both parser modes: no panic,
// allocation bounded by the input, error positions inside the input.
func VerifC14_SymbolicHint() {
	vsymExpect("error")
	vsymExpect("parsed")
	vsymRegion("sizeHintPreallocation")
	vsymFmtOpaque(true) // the wording of error messages that quote the hint is not the subject
	n := 10
	if vsymTier() == 1 {
		n = []int{20, 1, 10, 19, 21}[vsymChoose(5)]
	}
	h := c14DigitHint(n)
	var input string
	kinds := 1 // quick: the ASCII item, the one whose hint enters index arithmetic; thorough: also list and binary
	if vsymTier() == 1 {
		kinds = 3
	}
	switch vsymChoose(kinds) {
	case 0:
		input = `S1F1 <A[` + h + `] "x">.`
	case 1:
		input = `S1F1 <L[` + h + `] <U1 1>>.`
	default:
		input = `S1F1 <B[` + h + `] 0x1F>.`
	}
	c14Check(input, vsymBool())
}
