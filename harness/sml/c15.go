//go:build verif

package sml

import (
	"math"

	"github.com/arloliu/go-secs/v2/secs2"
)

// ---- C15: the default encoder is byte-identical to Item.ToSML ----

func strEq(a, b string, label string) {
	vsymAssert(len(a) == len(b), label+"-length")
	for i := 0; i < len(a) && i < len(b); i++ {
		vsymAssert(a[i] == b[i], label+"-bytes")
	}
}

// c15Floats: values that tell float32 from float64 rendering and precision 9 from 17 apart
var c15Floats = []float64{0, 1, -1, 0.1, 1.0 / 3, 16777217, 1e-7, 3.4028234663852886e+38, 1.7976931348623157e+308,
	5e-324, math.Inf(1), math.Inf(-1), math.NaN(), math.Copysign(0, -1), 123456789.125, 1e21, 1e20}

// c15Leaf builds a leaf item with symbolic contents (floats: concrete witnesses).
func c15Leaf(kind, n int) secs2.Item {
	switch kind {
	case 0:
		v := make([]int64, n)
		for i := range v {
			v[i] = int64(int8(vsymU8()))
		}
		return secs2.NewIntItem(1, v)
	case 1:
		v := make([]int64, n)
		for i := range v {
			v[i] = int64(int16(vsymU16()))
		}
		return secs2.NewIntItem(2, v)
	case 2:
		v := make([]int64, n)
		for i := range v {
			v[i] = int64(int32(vsymU32()))
		}
		return secs2.NewIntItem(4, v)
	case 3:
		v := make([]int64, n)
		for i := range v {
			v[i] = vsymI64()
		}
		return secs2.NewIntItem(8, v)
	case 4:
		v := make([]uint64, n)
		for i := range v {
			v[i] = uint64(vsymU8())
		}
		return secs2.NewUintItem(1, v)
	case 5:
		v := make([]uint64, n)
		for i := range v {
			v[i] = uint64(vsymU16())
		}
		return secs2.NewUintItem(2, v)
	case 6:
		v := make([]uint64, n)
		for i := range v {
			v[i] = uint64(vsymU32())
		}
		return secs2.NewUintItem(4, v)
	case 7:
		v := make([]uint64, n)
		for i := range v {
			v[i] = vsymU64()
		}
		return secs2.NewUintItem(8, v)
	case 8:
		return secs2.NewBinaryItem(vsymBytes(n))
	case 9:
		v := make([]bool, n)
		for i := range v {
			v[i] = vsymBool()
		}
		return secs2.NewBooleanItem(v)
	case 10:
		return secs2.NewASCIIItem(string(vsymBytes(n)))
	case 11:
		return secs2.NewJIS8Item(string(vsymBytes(n)))
	case 12:
		b := vsymBytes(n)
		for _, c := range b {
			vsymAssume(c >= 0x20 && c < 0x7f) // printable text; quoting of other runes is strconv's
		}
		return secs2.NewLocalizedStrItem(vsymU16(), string(b))
	case 13:
		v := make([]float64, n)
		for i := range v {
			v[i] = c15Floats[vsymChoose(len(c15Floats))]
		}
		return secs2.NewFloatItem(4, v)
	case 14:
		v := make([]float64, n)
		for i := range v {
			v[i] = c15Floats[vsymChoose(len(c15Floats))]
		}
		return secs2.NewFloatItem(8, v)
	default:
		return secs2.NewEmptyItem()
	}
}

// VerifC15_Leaf: every leaf type with 0, 1, 2 elements.
func VerifC15_Leaf() {
	vsymExpect("compared")
	kind := vsymChoose(16)
	n := vsymChoose(3)
	if kind <= 7 && n == 2 && vsymTier() == 0 {
		// quick: integer items with at most one symbolic element. strconv's small-value fast path
		// slices a digit table at a symbolic offset, which the executor concretises: ~200 paths per
		// symbolic integer, squared for two.
		n = 1
	}
	var it secs2.Item
	if kind <= 7 && n == 2 {
		// thorough: integer items of two elements = one fully symbolic element + one boundary value
		// (two symbolic integers square the ~200 paths strconv costs per symbolic integer)
		one := c15Leaf(kind, 1)
		w := []int{1, 2, 4, 8, 1, 2, 4, 8}[kind]
		if kind <= 3 {
			a, _ := one.IntAt(0)
			it = secs2.NewIntItem(w, a, []int64{-1, 0, 100}[vsymChoose(3)])
		} else {
			a, _ := one.UintAt(0)
			it = secs2.NewUintItem(w, a, []uint64{0, 9, 255}[vsymChoose(3)])
		}
	} else {
		it = c15Leaf(kind, n)
	}
	vsymAssert(it.Error() == nil, "item-error-free")
	vsymReach("compared")
	strEq(Encode(it), it.ToSML(), "encoder-equals-ToSML")
	strEq(NewEncoder().Encode(it), it.ToSML(), "new-encoder-equals-ToSML")
}

// c15Tree: lists of <= 2 children to depth 2 over a few leaf kinds (1 symbolic element each),
// including empty lists and empty-item children.
func c15Tree(depth int) secs2.Item {
	if depth == 0 || vsymChoose(2) == 0 {
		kinds := []int{8, 9, 10, 11, 15}
		c := vsymChoose(len(kinds) + 5)
		if c < len(kinds) {
			return c15Leaf(kinds[c], 1)
		}
		// numeric leaves with concrete values (their digits are the subject of Leaf; here it is how a
		// numeric item of 0, 1, 2 elements sits inside nested lists)
		switch c - len(kinds) {
		case 0:
			return secs2.NewIntItem(2, int16(-3), int16(7))
		case 1:
			return secs2.NewUintItem(4)
		case 2:
			return secs2.NewFloatItem(4, float32(1.5))
		case 3:
			return secs2.NewUintItem(8, uint64(18446744073709551615))
		default:
			return secs2.NewFloatItem(8, -0.25, 1e300)
		}
	}
	k := vsymChoose(3)
	kids := make([]secs2.Item, 0, k)
	for i := 0; i < k; i++ {
		kids = append(kids, c15Tree(depth-1))
	}
	return secs2.NewListItem(kids...)
}

func VerifC15_Tree() {
	vsymExpect("compared")
	k := vsymChoose(3)
	kids := make([]secs2.Item, 0, k)
	for i := 0; i < k; i++ {
		kids = append(kids, c15Tree(1))
	}
	it := secs2.L(kids...)
	vsymReach("compared")
	strEq(Encode(it), it.ToSML(), "tree-encoder-equals-ToSML")
}

// VerifC15_ReadBack: the default rendering of integer, boolean and binary elements is read back by
// the parser as the same value (all 8-bit integers; 16/64-bit ones at their boundaries; binary and
// boolean elements symbolic).
func VerifC15_ReadBack() {
	vsymExpect("read-back")
	var it secs2.Item
	isNaN := false
	switch vsymChoose(10) {
	case 8, 9:
		// float witnesses (concrete: strconv's float code runs on the host): F8, and F4 of the
		// float32-rounded witness
		f := c15Floats[vsymChoose(len(c15Floats))]
		isNaN = f != f
		if vsymBool() {
			it = secs2.NewFloatItem(8, f, 2.5)
		} else {
			it = secs2.NewFloatItem(4, float32(f), float32(2.5))
		}
	case 0:
		// every I1 value (enumerated: decimal text of a symbolic integer is a digit-table lookup the
		// executor concretises anyway)
		it = secs2.NewIntItem(1, int64(int8(vsymChoose(256))), int64(-7))
	case 1:
		ex := []int64{-32768, -32767, -1000, -100, -99, -10, -9, -1, 0, 1, 9, 10, 99, 100, 999, 1000, 9999, 10000, 32766, 32767}
		it = secs2.NewIntItem(2, ex[vsymChoose(len(ex))])
	case 2:
		it = secs2.NewUintItem(1, uint64(vsymChoose(256)))
	case 3:
		ex := []uint64{0, 9, 10, 99, 100, 255, 256, 999, 1000, 9999, 10000, 65534, 65535}
		it = secs2.NewUintItem(2, ex[vsymChoose(len(ex))], ex[vsymChoose(len(ex))])
	case 4:
		it = secs2.NewBinaryItem(vsymBytes(2))
	case 5:
		it = secs2.NewBooleanItem(vsymBool(), vsymBool())
	case 6:
		ex := []int64{math.MinInt64, math.MaxInt64, math.MinInt32, math.MaxInt32, -1, 0}
		it = secs2.NewIntItem(8, ex[vsymChoose(len(ex))])
	default:
		ex := []uint64{math.MaxUint64, math.MaxUint32, 1 << 63, 0}
		it = secs2.NewUintItem(8, ex[vsymChoose(len(ex))])
	}
	text := "S1F1\n" + Encode(it) + "\n."
	msgs, err := Parse(text)
	vsymReach("read-back")
	vsymAssert(err == nil && len(msgs) == 1, "default-rendering-parses")
	if err == nil && len(msgs) == 1 {
		got, ierr := msgs[0].Item()
		if isNaN {
			fs, ferr := got.ToFloat()
			vsymAssert(ierr == nil && ferr == nil && len(fs) == 2 && fs[0] != fs[0] && fs[1] == 2.5, "parser-reads-back-NaN-as-NaN")
		} else {
			vsymAssert(ierr == nil && secs2.Equal(got, it), "parser-reads-back-the-same-value")
			if ierr == nil && got != nil {
				vsymAssert(c15SameBytes(got.ToBytes(), it.ToBytes()), "parser-reads-back-the-same-bits")
			}
		}
	}
	// the Item's own rendering likewise
	msgs2, err2 := Parse("S1F1\n" + it.ToSML() + "\n.")
	vsymAssert(err2 == nil && len(msgs2) == 1, "ToSML-rendering-parses")
	if err2 == nil && len(msgs2) == 1 && !isNaN {
		got, ierr := msgs2[0].Item()
		vsymAssert(ierr == nil && secs2.Equal(got, it), "parser-reads-back-ToSML")
	}
}

func c15SameBytes(a, b []byte) bool {
	if len(a) != len(b) {
		return false
	}
	for i := range a {
		if a[i] != b[i] {
			return false
		}
	}
	return true
}
