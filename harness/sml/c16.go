//go:build verif

package sml

// ---- C16 (sml half): text whose values do not fit the item type yields an error, never a
// message carrying an errored or wrapped item ----

// VerifC16_ParserGate: numeric tokens that overflow the item width (one symbolic digit next to the
// boundary), a negative value in an unsigned item, a byte above 255 in a binary item: the parser
// returns an error or a message whose item is error-free and holds the value as written.
func VerifC16_ParserGate() {
	vsymExpect("error")
	vsymExpect("parsed")
	d := vsymU8()
	vsymAssume(d >= '0' && d <= '9')
	ds := string([]byte{d})
	var input string
	var want int64
	kind := vsymChoose(6)
	switch kind {
	case 0:
		input, want = "S1F1 <U1 25"+ds+">.", 250+int64(d-'0') // 250..259: 256.. do not fit
	case 1:
		input, want = "S1F1 <I1 12"+ds+">.", 120+int64(d-'0') // 120..129: 128.. do not fit
	case 2:
		input, want = "S1F1 <I1 -12"+ds+">.", -(120 + int64(d-'0')) // -129 does not fit
	case 3:
		input, want = "S1F1 <U2 6553"+ds+">.", 65530+int64(d-'0') // 65536.. do not fit
	case 4:
		input, want = "S1F1 <B 25"+ds+">.", 250+int64(d-'0')
	default:
		input, want = "S1F1 <U4 -"+ds+">.", -int64(d-'0') // negative into unsigned: refused, or (for -0) the value 0
	}
	strict := vsymBool()
	msgs, err := NewParser(WithParserStrictMode(strict)).Parse(input)
	if err != nil {
		vsymReach("error")
		vsymAssert(msgs == nil, "no-message-with-error")
		fits := false
		switch kind {
		case 0, 4:
			fits = want <= 255
		case 1:
			fits = want <= 127
		case 2:
			fits = want >= -128
		case 3:
			fits = want <= 65535
		default:
			fits = false // a signed literal in an unsigned item may be refused outright, "-0" included
		}
		vsymAssert(!fits, "a-value-that-fits-is-accepted")
		return
	}
	vsymReach("parsed")
	vsymAssert(len(msgs) == 1 && msgs[0] != nil, "one-message")
	if len(msgs) != 1 || msgs[0] == nil {
		return
	}
	it, ierr := msgs[0].Item()
	vsymAssert(ierr == nil && it != nil && it.Error() == nil, "parsed-item-error-free")
	if it == nil {
		return
	}
	var got int64
	switch kind {
	case 1, 2:
		v, e := it.IntAt(0)
		vsymAssert(e == nil, "int-readable")
		got = v
	case 4:
		v, e := it.ByteAt(0)
		vsymAssert(e == nil, "byte-readable")
		got = int64(v)
	default:
		v, e := it.UintAt(0)
		vsymAssert(e == nil, "uint-readable")
		got = int64(v)
	}
	vsymAssert(got == want, "value-as-written-never-wrapped-or-clamped-silently")
}
