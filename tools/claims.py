# Table of claims; exec'd by mkmanifest.py (claim(), na() are provided).

claim("C01",
      "Bounded symbolic model check of the real secs2 constructors, encoders and decoder against an independent E5 reference encoder: "
      "for every element value (all bit patterns) of every leaf type x argument shape x 0..3 elements, list trees of depth <=2 (thorough: 6 leaf kinds; depth 3 with 2 kinds), "
      "length boundaries 255/256/65535/65536 through the real item code, nesting 63/64/65, slab boundaries 2/6/22(/86) leaves, and the header function over ALL lengths and format codes, "
      "the encoded bytes equal the reference, EncodedLen matches, AppendTo preserves the prefix, encoding is deterministic and Decode returns an Equal item with the same values. "
      "This is the right level because the property is a forall over values whose interesting points (255/256, sign bits, NaN payloads) are rare; the solver decides each path for all values.",
      "Trusted: the SSA executor and its models (listed in evidence), z3 4.8.12, the reference encoder in harness/secs2/c01.go. Outside the claim: items of more than 65536 elements (except the header function), "
      "float32 NaN payload bits (excluded by assumption), numeric-string arguments (C16), tree shapes beyond the stated bounds.")

claim("C02",
      "Bounded symbolic model check of the real Decode/DecodeOwned on ALL byte strings of length <=5 (thorough <=6) plus length-field templates, against an independent E5 recogniser, "
      "a lock-step value checker and an allocation guard (bytes requested <= 512*len+8192, symbolic sizes checked before concretisation): acceptance set equals the grammar, "
      "values are the grammar's, re-encoding equals the consumed prefix, no panic, Decode and DecodeOwned agree.",
      "Trusted: executor + models, z3, the recogniser in harness/secs2/c02.go. Outside: inputs longer than the bound other than the templates; GC/RSS (the guard counts requested bytes).")

claim("C16",
      "Bounded symbolic model check of every numeric/binary/boolean constructor: byteSize ranges over all ints, each argument over the full range of each of the 10 Go integer types, float32 and float64 (all bit patterns), "
      "in scalar/slice/mixed shapes and as short numeric strings; the result is compared with an independent clamp table (never wrapped, refusals give an error), on the accessor and on the wire bytes; "
      "unsupported dynamic types and errored children at depth <=3 give errored, never-equal items; no path panics; 8-byte items one element beyond the 16,777,215-byte payload limit are errored, the largest fitting ones are not. The hsms/sml half: errored items are refused by the three message construction routes, by the four item-taking session calls in every state (nothing written, enqueued, registered or counted) and never produced by the parser for out-of-range text.",
      "Trusted: executor + models, z3 (qffpbv tactic for FP paths), the clamp tables in the harness. Outside: typed-nil children, long numeric strings, float strings, more than 3 arguments, the size limit of the 1-, 2- and 4-byte families (2^22..2^24 elements).")

claim("C03",
      "Bounded symbolic model check of the real HSMS message constructors, serialisers, decoders, re-stamping helpers and buildFrameBuffers against a literal E37 8.2 frame layout: "
      "all (stream, function, W, session id, system bytes) tuples x 7 body shapes, all nine control kinds with symbolic status/reason/request type, re-stamp chains of <=4 steps (thorough <=5), all 2^80 headers for the from-header constructor. "
      "Construction rejects exactly the invalid combinations; frame = decode = re-serialise = bytes handed to the transport.",
      "Trusted: executor + models, z3, refFrame. Outside: the socket (the write is the net.Buffers handed to the transport), larger bodies (C01).")

claim("C04",
      "Bounded symbolic model check of (a) the three frame decode entry points on every byte string up to 19 bytes (thorough 20) and all 2^32 length fields: accepted iff well-formed, no panic, allocation bounded, "
      "bad bodies accepted at frame level with one shared decode result for all holders; (b) the real recvLoop/readFrame/readN over a scripted net.Conn for every pair (thorough: triple) of cut points with per-segment delays: "
      "same frames in order, deadline cleared iff at a frame boundary else exactly now+T8, idle gaps survive, in-frame gap > T8 or a length outside [10, cap] drops the link once without allocating.",
      "Trusted: executor + models, z3, the scripted net.Conn (deadline contract of net.Conn assumed). Outside: real kernel timing, >3 cuts, >2 frames.")

claim("C08",
      "Symbolic one-step induction over the HSMS-SS responder: the real dispatchFrame and control responders are run on ONE frame whose 10 header bytes (+0/1 body byte) are all symbolic, from every responder state, "
      "and the frames sent back, delivery, disconnect and the resulting selected/open-transaction state are compared with an independent E37/E37.1 responder; because the post-state is asserted equal to the reference post-state the step covers frame sequences of any length. Sequences of 2 (thorough 3) frames are run as a redundant confirmation.",
      "Trusted: executor + models, z3, the reference responder, the model runtime vrt. Outside: a real OS listener (the second-connection refusal is decided on the real accept loop over a scripted net.Listener: late dialers are closed at once, the live session undisturbed), async sender ordering, session-id validation, T7/linktest goroutines.")

claim("C19",
      "Bounded symbolic model check of the linktest failure accounting: the two reducers on ALL inputs against a transcription of the documented rules, and the real runLinktest loop under virtual time over every history of 4 (thorough 6) rounds "
      "of {silent, answered, traffic, reply outstanding, frame during wait, send during wait} x threshold 1..3 x suppression on/off: TCPDown exactly when the rules say (silent peer at exactly the threshold-th consecutive timeout, a peer showing life never), "
      "no probe while traffic flowed within the interval or a reply is outstanding (suppression on), every round probed (off).",
      "Trusted: executor + virtual-time model (natively: testing/synctest), z3, the rule transcription. Outside: wall-clock seconds, goroutine management of start/stopLinktest.")

claim("C06",
      "Bounded symbolic model check of reply correlation in the real core: DeliverOwnedFrame/RouteReply on an inbound frame with a fully symbolic header against two open transactions with arbitrary system bytes (own reply -> exactly its channel, primary -> every handler once in order, unsolicited -> handlers, duplicate discarded, Reject.req -> RejectError with the peer's reason), "
      "and the real SendDataMessage/SendSECS2Message/WriteMessage over sendWaitReply under virtual time for 9 scripted peer behaviours at write time: the result is exactly one of own secondary / RejectError / T3 (not earlier than T3) / connection-closed / ctx error, never (nil,nil), the key is deregistered on every exit. RaceVT places the peer's reply / reject, a generation end and the caller's cancel (one or two of them, back to back) at an ARBITRARY instant of one W-bit send "
      "(one preemption before each of <=160 call instructions, bound checked): one documented outcome, a reply reaches exactly one recipient, an answer arriving after the write always reaches the sender. System-bytes uniqueness for all counter pairs.",
      "Trusted: executor + cooperative scheduler/virtual time with one harness-placed preemption, xsync.MapOf model, model transport, z3. Outside: several senders at once, more than one preemption, real timers.")

claim("C07",
      "Bounded symbolic model check of the data gate: every data-sending entry point x every FSM state x epoch present/absent x a state flip in the gate-to-write window -> no transport write, ErrNotSelectedState/ErrNotOpen, exactly one drop counted, nothing enqueued or registered; control traffic unaffected; "
      "inbound (real dispatchFrame): data while NotSelected -> exactly one Reject reason 4 echoing session id/system bytes, not delivered, link up; data pipelined behind Select.req / routed Select.rsp(0) is delivered, never rejected.",
      "Trusted: executor + models, z3, harness transport/runtime. Outside: write groupings (C04), scheduling of the async drain goroutine; histories are represented by the state they lead to.")

claim("C09",
      "Bounded symbolic model check of generation binding: after generation 1 ended (3 ways) and generation 2 was published, a stale synchronous writeFrame or the drain loop (every ready-set choice) never reaches the transport with generation 2's socket and queued frames are discarded; "
      "a W-bit send waiting on generation 1 is not completed by a same-system-bytes reply arriving on generation 2 and ends promptly with the connection-closed error; a pooled reply channel never carries a reply into a later generation. RaceVT moves the generation switch (3 ending orders, successor published, reply delivered on the successor) "
      "to an ARBITRARY instant of one send of each kind (one preemption before each of <=200 call instructions, bound checked): the frame goes out at most once, never on generation 2 while registered or queued on generation 1.",
      "Trusted: executor + cooperative scheduler with one harness-placed preemption, z3. Outside: more than one preemption / several senders, real sockets, the secs1 line engine (C18), the lifecycle code that creates generations (C10/C11). The SECS-I transport's Write is covered by Secs1BindingVT (hand-off only to the engine of the generation that owns the caller's socket, generation switched at every call instruction of Write).")

claim("C20",
      "Bounded symbolic model check of per-operation accounting: for each send outcome (reply, peer reject, T3, disconnect, cancel, refused B1, refused B2, write error, fire-and-forget, forward, control) the delta of every counter equals the documented table, the in-flight gauge returns to its entry value, is never negative, is 0 before the write and 1 while waiting; the async drain counts one send per written frame or one async error per failed write; DeliverOwnedFrame counts one receive per data frame. "
      "Two concurrent reply-expected sends with independent outcomes and one preemption at each of <=320 call instructions: the gauge is never negative nor above the number of open sends, and the counters add up. Two overlapping reconnect loops: the reconnecting gauge stays positive while either runs.",
      "Trusted: executor + models + cooperative scheduler with one harness-placed preemption, z3. Outside: equality with a real peer's counts under larger concurrent histories; quiescence under real scheduling; secs1 counters.")

claim("C05",
      "Bounded exhaustive exploration, by the symbolic executor, of the interleavings between the supervisor's serial step() and the synchronous commits on the real code: all histories of 4 API actions with interference inside the load-to-write window of every processed event, plus ONE step from an arbitrary supervisor state (inductive). "
      "Obligations: the state word changes only along E37 edges; each commit takes effect at once and exactly from its source state; processing a commit-backed event later never moves the word (no replay/undo); T7 never moves a Selected word; after Close the word is NotConnected and stays so whatever commits follow; notifications are deduped, chained, never self-transitions, coalescing is counted; when quiescent the last notification equals State().",
      "Trusted: executor + channel/atomic models (sequentially consistent), z3, rely conditions listed in evidence. One open known finding (stale evSelectAccepted after SelectLost), one fixed (commit after the close latch). Outside: memory model, notifier delivery, run() starved beyond the reconnect backoff.")

claim("C11",
      "Bounded symbolic model check of recovery: nextBackoffDelay as a floating-point query (0 < result <= T5 for any multiplier on the grid, result >= current for multiplier >= 1); the real connectLoop under virtual time with a transport failing 0..3 dials: "
      "delays start at min(initial, T5), never decrease, never exceed T5, dialing continues until success, Reconnects +1 exactly per successful counted redial, the reconnecting gauge is 1 inside and 0 after, a Close/re-Open at the fence stops dialing and publishes nothing; "
      "the NotConnected reaction reconnects only after an involuntary drop; T7 expiry and read errors at any byte funnel into exactly one link-down report.",
      "Trusted: executor + virtual time, model transport, z3 (FP tactic). Outside: real sockets/listeners, end-to-end re-selection after recovery, multipliers off the grid / T5 > 18 min, SECS-I.")

claim("C10",
      "NARROW claim: bounded exploration, by the symbolic executor with a cooperative scheduler and virtual time, of (a) SEQUENTIAL Open/Close call histories (length 3, thorough 4) on the real lifecycle code against three peer behaviours, plus a wedged-teardown Close and drop-then-Close: "
      "double Open -> ErrAlreadyOpen with no side effects, Close before Open -> ErrNotOpen, re-Close idempotent (retained result, no side effects), after Close State()==NotConnected, every library goroutine finished, no socket left, no dial ever again, reopen gets a fresh supervisor and selects like a first open, Close bounded by the close timeout (ErrCloseTimeout when the join is wedged); "
      "(b) TWO CONCURRENT callers from each lifecycle state, each making one call from {Open, Close, fire-and-forget send} (thorough: + reply-expected send, UpdateConfigOptions), with ONE preemption before each of <=400 (thorough <=1600) call instructions executed by the callers and the library's goroutines (bound checked): "
      "no panic, no deadlock, the Open/Close results are those of one of the two serial orders, nothing is left running after a final Close. "
      "Larger concurrent mixes, real I/O and wall-clock sub-claims are NOT covered (listed as outside in the evidence).",
      "Trusted: executor + cooperative scheduler (one schedule per sequential history; one preemption per concurrent pair), virtual time (natively testing/synctest), model transport. Outside/N-A: three or more concurrent callers, more than one preemption, real sockets/listeners, latency under real scheduling, SECS-I.")

claim("C17",
      "Bounded symbolic model check of SECS-I blocking: the real splitFrame/appendTo output for every boundary body length against a literal E4 block layout (length byte, R/device, W/stream, function, E/block number 1..N, system bytes, <=244 body bytes, 16-bit checksum), parse + reassembly by the opposite role delivering the message byte-identically exactly once; "
      "parseBlock accepts exactly the E4 well-formed blocks; the real assembler on 2 (thorough 3) blocks with fully symbolic headers and T4-boundary gaps delivers exactly what a transcription of the E4 9.4.4 receive algorithm delivers and never returns an error.",
      "Trusted: executor + models, z3, the reference layout/algorithm. Outside: the live line engine and sockets, fully symbolic 244-byte bodies, longer block sequences.")

claim("C18",
      "Bounded symbolic model check of the per-block line discipline: every single-character corruption of header/body/checksum is rejected by parseBlock (all positions, all replacement values); the real sendBlock against every script of 4 (thorough 5) peer responses x retry limit 0..2 x role: "
      "never more than limit+1 attempts between yields, ErrSendFailed after exactly limit+1, data written only as the block itself, nil only after an ACK, master never yields, slave delivers exactly the valid blocks it yielded for; receiveBlock answers exactly one ACK (valid) or NAK (anything else); a block retransmitted after a lost ACK is ACKed again and delivered once; a two-block message whose first block was NAKed once and retransmitted is delivered once and byte-identical. "
      "The two-endpoint exactly-once composition is NOT claimed.",
      "Trusted: executor + scripted line model, z3. Outside/N-A: end-to-end two-endpoint composition under fault schedules, length-character corruption, multi-block fault scenarios other than the one retransmission.")

claim("C13",
      "Bounded symbolic model check of the strict SML round trip on the real encoder and parser: ASCII items of 0..2 bytes over all 256 byte values under 4 joint option/header configurations (thorough: all option combinations and boundary stream/function values), binary/boolean symbolic, all 8-bit integers, wider integers and floats on boundary/witness tables, nesting; "
      "and parser-accepted text templates re-encoded and re-parsed. Rendered text parses back to one message with the same stream/function/W and an Equal body.",
      "Trusted: executor + models (symbolic formatter, host float conversion), z3. Outside: float text beyond witnesses, JIS-8/localized text, symbolic wide integers, longer ASCII items.")

claim("C14",
      "Bounded symbolic model check of parser totality on 42 grammar-directed templates with fully symbolic holes (quick 37), strict and non-strict: no panic on any path (every run-time panic site is an obligation), termination within a step bound of 4000*len^2+200000 SSA instructions per parse, messages xor error, ParseError offset within the input with line/column equal to an independent recount, parsed messages valid, and an allocation guard of 64*len+4096 bytes with size hints from a table incl. the machine-word boundaries and as 10 (thorough 20) symbolic decimal digits; two instances used alternately behave like fresh ones.",
      "Trusted: executor + models, z3, native confirmation of allocation excess via runtime.MemStats. Outside/N-A: concurrent instances (race detector domain), wall-clock time and stack depth, more than 2 symbolic bytes per template, inputs outside the templates.")

claim("C15",
      "Bounded symbolic model check that the default encoder and Item.ToSML produce byte-identical text: both renderers run on the same symbolic item (16 leaf kinds with 0..2 elements, list trees to depth 2 with empty lists and empty-item children) with integer/boolean/binary/text contents symbolic and floats from a witness table, compared byte for byte; the rendering of integer, boolean and binary elements is parsed back to an Equal item.",
      "Trusted: executor + symbolic-capable fmt model, the real strconv code for integers, host strconv for concrete floats, z3. Outside: float digit semantics and float read-back, W text with non-printable runes.")

for _p, _r in {
    "C03": "check not yet registered in this session (work in progress, see DESIGN.md §3)",
    "C04": "check not yet registered in this session (work in progress, see DESIGN.md §3)",
    "C05": "check not yet registered in this session (work in progress, see DESIGN.md §3)",
    "C06": "check not yet registered in this session (work in progress, see DESIGN.md §3)",
    "C07": "check not yet registered in this session (work in progress, see DESIGN.md §3)",
    "C08": "check not yet registered in this session (work in progress, see DESIGN.md §3)",
    "C09": "check not yet registered in this session (work in progress, see DESIGN.md §3)",
    "C10": "check not yet registered in this session (work in progress, see DESIGN.md §3)",
    "C11": "check not yet registered in this session (work in progress, see DESIGN.md §3)",
    "C13": "check not yet registered in this session (work in progress, see DESIGN.md §3)",
    "C14": "check not yet registered in this session (work in progress, see DESIGN.md §3)",
    "C15": "check not yet registered in this session (work in progress, see DESIGN.md §3)",
    "C16": "check not yet registered in this session (work in progress, see DESIGN.md §3)",
    "C17": "check not yet registered in this session (work in progress, see DESIGN.md §3)",
    "C18": "check not yet registered in this session (work in progress, see DESIGN.md §3)",
    "C19": "check not yet registered in this session (work in progress, see DESIGN.md §3)",
    "C20": "check not yet registered in this session (work in progress, see DESIGN.md §3)",
}.items():
    if _p not in CHECKS:
        na(_p, _r)

claim("C12",
      "Bounded symbolic model check of immutability as a two-run differential on the real code: an item or message is built from caller-owned slices with symbolic contents "
      "(15 secs2 constructor shapes x 0..3 elements (thorough 4), string items, the copying and the owning Decode; data messages built directly / from a header / through Derive, their re-stamped copies, "
      "control and data messages from the three frame decode entry points), fully observed through the public accessor/serializer/append surface, then every caller-visible slice and array "
      "(constructor inputs, the decoded buffer, every slice ANY accessor of the object or of its copies returned, including spare capacity) is overwritten with symbolic non-zero XOR masks, and observed again: "
      "the solver decides for all contents and all overwrite values that the observations are equal (an aliased backing array makes the second observation a function of the mask). "
      "Lazy decode/encode sharing: the first observations are made by three goroutines on a message and two re-stamped copies under the cooperative scheduler with ONE preemption placed before each of the call instructions they execute "
      "(bound checked: at most 48 call instructions), and all obtain the same item object, the same error, equal body bytes and one shared encoding buffer.",
      "Trusted: executor + models (sync.Once/Mutex/atomics modelled; host-pointer identity for aliasing), z3. Outside the claim: data-race freedom as the Go memory model defines it (the executor has no happens-before tracker; "
      "what is decided is result identity under the stated interleavings), more than one preemption, more than three readers, items of more than 3 elements or depth > 2, ToSML as an observation (C15), "
      "buffers whose ownership the API transfers by contract (DecodeOwned, DecodeOwnedHSMSPayload: inputs not overwritten).")
