#!/usr/bin/env python3
"""Regenerates /verif/MANIFEST.json from the table below (kept in one place so the manifest is
always schema-valid). Run: python3 tools/mkmanifest.py"""
import json, os, sys

ROOT = os.path.dirname(os.path.dirname(os.path.abspath(__file__)))

GOENV = "PATH=/opt/veriftools/go1.26.8/bin:$PATH GOTOOLCHAIN=local GOFLAGS=-mod=mod GOPROXY=off GOSUMDB=off"

TECH = "bounded symbolic execution of the real go/ssa code of /repo (own SSA->SMT-LIB2 executor), every assertion decided by z3 over all inputs within the stated bounds; counterexamples replayed natively via go test -overlay"

# property -> (level text, level_note, design_ref)
CHECKS = {}
NA = {}

def claim(pid, text, note, ref=None):
    CHECKS[pid] = (text, note, ref or ("§3 " + pid))

def na(pid, reason):
    NA[pid] = reason

# ---- table (edited by hand as checks are registered) ----
exec(open(os.path.join(ROOT, "tools", "claims.py")).read())

checks = []
for pid in sorted(CHECKS):
    text, note, ref = CHECKS[pid]
    checks.append({
        "property_id": pid,
        "quick_cmd": f"./bin/vcheck {pid} --tier quick",
        "thorough_cmd": f"./bin/vcheck {pid} --tier thorough",
        "evidence_file": f"/verif/evidence/{pid}.json",
        "replay_cmd_template": "./bin/vcheck --replay {path}",
        "engine": "gosym",
        "level_claimed": {"category": "model_checking", "text": text, "design_ref": ref},
        "level_note": note,
        "technique": TECH,
    })

man = {
    "version": 1,
    "setup_cmd": f"cd gosym && {GOENV} go build -o ../bin/vcheck ./cmd/vcheck",
    "hooks": {
        "guard": "verif",
        "enable": "no source hooks: harness files are injected as /repo/<pkg>/zz_verif_*.go through go/packages Overlay and `go test -overlay` with -tags verif; nothing is written into /repo",
        "baseline_off_cmd": f"cd /repo && {GOENV} go test -vet=off -count=1 -timeout 25m ./...",
        "source_commits": [],
        "add_only": True,
    },
    "engines": [{
        "name": "gosym",
        "path": "/verif/gosym",
        "serves_properties": sorted(CHECKS),
        "kind_free_text": "symbolic executor for go/ssa (x/tools v0.50.0, go1.26.8): bit-vector/FP terms, path exploration by re-execution, one persistent z3 -in per worker, native replay + differential self-check of the executor against the compiled package",
    }],
    "checks": checks,
    "notes": "Exit codes of vcheck: 0 held within bounds; 1 VIOLATION (counterexample replayed against the native build); 2 bound exceeded / solver inconclusive / vacuous / harness does not type-check against this tree; 3 counterexample did not reproduce natively. Known findings: /verif/known_findings.json. See DESIGN.md.",
    "not_applicable": [{"property_id": p, "reason": NA[p]} for p in sorted(NA)],
}
json.dump(man, open(os.path.join(ROOT, "MANIFEST.json"), "w"), indent=1)
print("wrote MANIFEST.json:", len(checks), "checks,", len(NA), "not_applicable")
