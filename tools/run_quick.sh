#!/bin/bash
# runs every quick check once on the unchanged tree and prints one line per property
cd "$(dirname "$0")/.."
for id in ${@:-C01 C02 C03 C04 C05 C06 C07 C08 C09 C10 C11 C12 C13 C14 C15 C16 C17 C18 C19 C20}; do
  s=$(date +%s)
  ./bin/vcheck $id --tier quick > /tmp/quick_$id.log 2>&1
  rc=$?
  echo "$id rc=$rc secs=$(( $(date +%s) - s )) $(grep -cE '^VIOLATION' /tmp/quick_$id.log) violations $(grep -cE 'PROBLEM' /tmp/quick_$id.log) problems $(grep -c '^KNOWN-FINDING' /tmp/quick_$id.log) known"
done
