#!/bin/bash
# runs every thorough check once (background validation of the registered thorough bounds)
export PATH=/opt/veriftools/go1.26.8/bin:$PATH GOTOOLCHAIN=local GOFLAGS=-mod=mod GOPROXY=off GOSUMDB=off
(cd gosym && go build -o ../bin/vcheck ./cmd/vcheck) || exit 9
for id in ${@:-C09 C20 C06 C07 C08 C10 C05 C03 C19 C12 C16 C18 C17 C02 C04 C11 C13 C15 C01 C14}; do
  s=$(date +%s)
  timeout ${TMO:-5400} ./bin/vcheck $id --tier thorough --workers ${WORKERS:-10} > thorough_$id.log 2>&1
  rc=$?
  echo "$id rc=$rc secs=$(( $(date +%s) - s )) $(grep -E "^VIOLATION|KNOWN-FINDING" thorough_$id.log | head -2 | tr '\n' ' ')"
  grep -E "PROBLEM" thorough_$id.log | cut -c1-300 | head -3
done
