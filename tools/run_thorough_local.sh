#!/bin/bash
# thorough tier, one property at a time, in /verif itself (evidence dir redirected), progress on
cd "$(dirname "$0")/.."
mkdir -p /tmp/thor
for id in "$@"; do
  s=$(date +%s)
  VERIF_PROGRESS=1 VERIF_EVIDENCE_DIR=/tmp/thor/ev timeout ${TMO:-2700} ./bin/vcheck $id --tier thorough > /tmp/thor/$id.log 2>&1
  rc=$?
  echo "$id rc=$rc secs=$(( $(date +%s) - s )) $(grep -cE '^VIOLATION' /tmp/thor/$id.log) viol $(grep -cE 'PROBLEM' /tmp/thor/$id.log) prob"
  grep -vE '^\[slow|^\[progress' /tmp/thor/$id.log | grep -E 'paths=[0-9]+ completed' | cut -c1-160
  if [ $rc = 124 ]; then grep '^\[progress' /tmp/thor/$id.log | tail -1 | cut -c1-200; fi
done
