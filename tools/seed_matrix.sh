#!/bin/bash
# Applies every stored seeded change to a scratch worktree of /repo and runs the quick check of its
# property there (VERIF_REPO); /repo itself is never touched. Expected: exit 1 with a VIOLATION line.
export PATH=/opt/veriftools/go1.26.8/bin:$PATH GOTOOLCHAIN=local GOFLAGS=-mod=mod GOPROXY=off GOSUMDB=off
WT=${WT:-/tmp/wt/matrix}; EV=${EV:-/tmp/wt/matrix_ev}; OUT=${OUT:-/tmp/wt/matrix_out}
mkdir -p $EV $OUT
git -C /repo worktree remove --force $WT 2>/dev/null; git -C /repo worktree prune
git -C /repo worktree add --detach $WT HEAD >/dev/null 2>&1 || exit 9
for d in /verif/seeded/${1:-C}*/; do
  id=$(basename $d); prop=${id%b}
  git -C $WT checkout -q -- . ; git -C $WT apply $d/patch.diff || { echo "$id APPLY-FAILED"; continue; }
  s=$(date +%s)
  VERIF_REPO=$WT VERIF_EVIDENCE_DIR=$EV timeout 2400 /verif/bin/vcheck $prop --tier quick --workers ${WORKERS:-8} > $OUT/$id.log 2>&1
  rc=$?
  echo "$id rc=$rc secs=$(( $(date +%s) - s )) $(grep -E '^VIOLATION' $OUT/$id.log | head -1 | sed 's/.*replay=.*\///' )"
  git -C $WT checkout -q -- .
done
git -C /repo worktree remove --force $WT; git -C /repo worktree prune
